SOURCE_COMMITS = ['c5d9560']

TB = ('Trusted: rustc MIR construction, std, and the pinned dependencies (Cargo.lock digest recorded in evidence); '
      'virtual calls dispatch to local impls; no unsafe code (checked on every run). ')

CHECKS = [
 {'id': 'C02', 'design_ref': 'DESIGN.md §3 C02',
  'technique': 'MIR loop-domain/affine bound analysis + edge-fact dataflow + path counting',
  'text': 'Path-/site-exhaustive static decision of the structural clauses of C02 (inclusive upper bound = index max_height, min(end,tip) clamp polarity, trim keeps [start-1,max], exactly one on_block per iteration with (fetched block, loop variable), cur_height bookkeeping, file-name operands, no cross-block state in per-block outputs). Holds for every chain length and every (s,e) because the clauses are facts about operators, aggregates and paths, not about a run.',
  'note': TB + 'Does not decide LevelDB iteration or that Range iteration is ascending (std).'},
]

NOT_APPLICABLE = []
_claimed = {c['id'] for c in CHECKS}
for _i in range(1, 18):
    _pid = 'C%02d' % _i
    if _pid not in _claimed and not any(n['property_id'] == _pid for n in NOT_APPLICABLE):
        NOT_APPLICABLE.append({'property_id': _pid, 'reason': 'static rules for this property are designed (DESIGN.md §3) but not yet implemented; not claimed until the check exists'})

