SOURCE_COMMITS = ['c5d9560', '265a34c', '1141073', '47656a5', '5687be7', '820b000']

TB = ('Trusted: rustc MIR construction, std, and the pinned dependencies (Cargo.lock digest recorded in evidence); '
      'virtual calls dispatch to local impls; no unsafe code (checked on every run). ')

CHECKS = [
 {'id': 'C02', 'design_ref': 'DESIGN.md §3 C02',
  'technique': 'MIR loop-domain/affine bound analysis + edge-fact dataflow + path counting',
  'text': 'Path-/site-exhaustive static decision of the structural clauses of C02 (inclusive upper bound = index max_height, min(end,tip) clamp polarity, trim keeps [start-1,max], exactly one on_block per iteration with (fetched block, loop variable), cur_height bookkeeping, file-name operands, no cross-block state in per-block outputs). Holds for every chain length and every (s,e) because the clauses are facts about operators, aggregates and paths, not about a run.',
  'note': TB + 'Does not decide LevelDB iteration or that Range iteration is ascending (std).'},
 {'id': 'C05', 'design_ref': 'DESIGN.md §3 C05',
  'technique': 'MIR guard-set extraction per return site (must-hold edge facts) + provenance tables',
  'text': 'Site-exhaustive static decision of the classification cascade: every return site of the Bitcoin evaluator is extracted with the set of library predicates known true/false there; the (predicate -> type) pairs, the precedences required where predicates overlap, the version-id -> network dispatch and the provenance of every reported address are compared with the reference table. Holds for every byte string because the cascade is a finite decision structure over opaque predicates.',
  'note': TB + 'rust-bitcoin predicates/encoders are the trusted base: that they implement the reference rules is not decided.'},
 {'id': 'C06', 'design_ref': 'DESIGN.md §3 C06',
  'technique': 'MIR affine cursor analysis + finite table/arm checks + builder-sequence extraction',
  'text': 'Static decision of the tokenizer arms, the instruction-pointer arithmetic relative to the opcode position (operand at ip0+1, data at ip0+1+w), EOF guards, NOP skipping, the five templates as evaluated opcode constants, address construction (Base58Check piece sequence, version byte provenance) and the per-coin version table, plus the flow of the version byte from the coin table to the evaluator. An off-by-one in cursor arithmetic is a fact about constants in the MIR, valid for all scripts.',
  'note': TB + 'bitcoin::opcodes classification, hash160/sha256d/base58 trusted. C06.le is an idiom match on read_uint.'},
 {'id': 'C10', 'design_ref': 'DESIGN.md §3 C10',
  'technique': 'typestate dataflow over MIR CFG (writer dirty/clean) + who-may-call + dropped-Result analysis',
  'text': 'All-paths typestate: at every fs::rename and Ok-return of every file-producing on_complete each buffering writer is flushed with a checked result after its last write; files are created only as <dump>/<x>.tmp in callback constructors and the rename sources equal the created set; no Result in the crate is dropped; the Err edge of the block fetch reaches only process::exit(non-zero) and never on_complete; main exits non-zero on every Err. These quantify over every fault point because they are path properties of the CFG.',
  'note': TB + 'rename(2) atomicity and BufWriter semantics trusted; SIGKILL timing/kernel durability not decided.'},
 {'id': 'C15', 'design_ref': 'DESIGN.md §3 C15',
  'technique': 'canonical provenance of every store/reduction/printed placeholder in MIR + type-width check',
  'text': 'Every accumulator store of the simplestats callback is extracted with its canonical provenance expression, loop depth and guard set and compared with the definition of the figure it feeds; reduction accumulators are at least 64 bit; maxima are strict; fee is coinbase-guarded and floored; every printed placeholder reads the accumulator its label names. Width and polarity facts hold for every chain.',
  'note': TB + 'Float formatting and numeric equality of the printed means are not decided.'},
 {'id': 'C16', 'design_ref': 'DESIGN.md §3 C16',
  'technique': 'MIR provenance analysis of the payload string + guard-set/format-template check of the print site',
  'text': 'The OP_RETURN payload on the Bitcoin path must derive from the decoded push instruction after OP_RETURN (never from a fixed byte offset, which cannot be right for all four push encodings), through strict UTF-8 with empty default; the fork path uses the Data token of the template; the single println is guarded exactly by is-OpReturn and non-empty and prints height, txid and the payload verbatim inside forward loops.',
  'note': TB + 'UTF-8 decoding in std and rust-bitcoin instruction decoding trusted.'},
 {'id': 'C04', 'design_ref': 'DESIGN.md §3 C04, §4',
  'technique': 'exhaustive truth-table evaluation of the extracted status filter + information-flow (dependency set) argument on MIR',
  'text': 'Two necessary conditions: the status filter guarding the height-map insertion, extracted from MIR and evaluated over all 256 status-bit assignments, admits only records with HAVE_DATA and without FAILED bits (and admits validated stored blocks); and the record kept per height must depend on prev-hash linkage — the checker computes the dependency set and collision policy of the insertion and reports that no chain walk exists. The second is a genuine defect of the pinned tree and is listed as an open known finding with a semantic key.',
  'note': TB + 'Core status-bit meaning (chain.h) and LevelDB key order trusted. The open finding C04.select is reported as KNOWN-FINDING; any other policy/dependency set is a new violation.'},
 {'id': 'C03', 'design_ref': 'DESIGN.md §3 C03',
  'technique': 'MIR provenance/order analysis (dominance-ordered reads, guard sets, absolute-seek check)',
  'text': 'Decides the structural causes of layout independence: record key filter and field order of the index record (i-th VarInt -> field), the VarInt kernel, the height -> (file number, offset) flow into the file lookup and the read without narrowing, the absolute seek to offset-4 before the size and block reads on the opened reader, and the blk-file name -> number map. A swapped field or a relative seek is a fact about operands, valid for every layout.',
  'note': TB + 'LevelDB iteration and seek_bufread internals trusted; C03.varint is an idiom match.'},
 {'id': 'C09', 'design_ref': 'DESIGN.md §3 C09',
  'technique': 'MIR must-pass-through (gate), edge-polarity extraction of the three comparisons, constant table check',
  'text': 'Decides that every verify=true path to a delivered block passes the chain-verify call with its error propagated, that each of the three comparisons returns Err exactly on the not-equal edge, that merkle leaves/prev-hash oracle/genesis constants have the required provenance and published values, and that a failing fetch exits non-zero without completing. Comparison polarity and gate paths hold for every corruption position.',
  'note': TB + 'utils::merkle_root arithmetic is value-level and NOT decided (one unit test covers a 6-leaf tree).'},
 {'id': 'C11', 'design_ref': 'DESIGN.md §3 C11',
  'technique': 'MIR store/index-expression analysis of XorReader (position bookkeeping) + type-level layer count',
  'text': 'Decides that the key byte applied to every byte read is key[(i + position_before_read) % len], that the position is the value returned by the inner seek and advances by exactly n after each read on every path, and that exactly one XOR layer with the one key from xor.dat wraps each freshly opened blk file. This makes the key index a function of the absolute file offset for every seek pattern and key length.',
  'note': TB + 'seek_bufread returning the absolute logical position on SeekFrom::Start is trusted (read while designing).'},
 {'id': 'C12', 'design_ref': 'DESIGN.md §3 C12',
  'technique': 'wire-grammar extraction from MIR reader bodies (ordered reads with bound CompactSize) + dominating-guard check + constant table',
  'text': 'Decides the activation table, the exact guard of the AuxPoW section read (Some(v) and v <= header.version), the section grammar tx,h32,branch,branch,header with branch = count, count x h32, u32le, and that the block hash / tx list / outputs do not depend on the section. Holds for all branch lengths and versions because the grammar term is independent of values.',
  'note': TB + 'Merged-mining spec layout trusted; tx and header non-terminals are decided under C01.wire.'},
 {'id': 'C17', 'design_ref': 'DESIGN.md §3 C17',
  'technique': 'who-may-write/who-may-call on the handle field + must-pass-through of the close decision + fold-kind extraction',
  'text': 'Decides that the handle is opened only lazily in read_block and dropped only in close, that every successful fetch passes the decision height >= highest height stored in that file and closes that same map entry on the true edge, and that the threshold table is a max-fold keyed by the record\'s own file over the untrimmed index. With ascending delivery this bounds open files by the files still holding a future height, for every layout.',
  'note': TB + 'OS descriptor release on drop trusted; relies on C02.asc.'},
 {'id': 'C01', 'design_ref': 'DESIGN.md §3 C01',
  'technique': 'wire-grammar extraction from MIR (ordered reads, bound loops, guards) compared with the protocol grammar; serializer builder-sequence extraction; format-template/provenance check of CSV columns',
  'text': 'Decides reader = protocol grammar (header, legacy/BIP144 tx, input, output, outpoint, CompactSize arms), field binding, serializer = fields in reader order minus witness with an 80-byte header, sha256d over exactly that term, the four CSV templates with per-column provenance and formatting, one row per item in forward nested loops to the matching file, and totals bound to the CompactSize counts. These are facts about order, width and provenance in the MIR, valid for every chain shape and CompactSize boundary.',
  'note': TB + 'SHA-256, Display impls, byteorder and BufWriter trusted. The u64->u32 cast of script/witness lengths is noted (lengths >= 2^32 cannot occur inside a u32-sized block).'},
 {'id': 'C07', 'design_ref': 'DESIGN.md §3 C07',
  'technique': 'MIR loop-structure/provenance analysis of the UTXO helpers, key-layout agreement via serializer terms, who-may-mutate check',
  'text': 'Decides per-transaction interleaving of spend removal and output insertion in chain order (necessary for same-block spends; helper order within one tx deliberately unconstrained), one key layout for insert/remove/dump (txid||index u32le), the address-bearing filter and stored value, unconditional removal for every input, the dump columns and header, and single ownership of the map. These hold for every spend history because they are structural facts about loops, guards and operands.',
  'note': TB + 'HashMap semantics trusted; relies on C01.ser (tx.hash = txid) and C02 (chain order).'},
 {'id': 'C08', 'design_ref': 'DESIGN.md §3 C08',
  'technique': 'sibling agreement check against C07\'s pipeline + provenance/width check of the aggregation',
  'text': 'Decides that Balances::on_block applies the same helpers with the same argument provenance as UnspentCsvDump::on_block, and that on_complete groups all unspents by address with a u64 += value and writes exactly one (address, balance) row per group from the map that was filled. With C07 this gives balances = per-address aggregation of the unspent dump structurally, for every history.',
  'note': TB + 'HashMap entry API trusted; u64 overflow of a balance is not possible below 21e14 units per address (not decided).'},
 {'id': 'C13', 'design_ref': 'DESIGN.md §3 C13',
  'technique': 'API-membership rules over resolved call sites (rayon pipeline shape, ambient inputs, FS/LevelDB effects), closure capture/effect analysis, hash-iteration site enumeration',
  'text': 'Decides the structural causes of schedule- and rerun-independence: both rayon pipelines are Vec::into_par_iter -> indexed adaptors -> collect::<Vec>, their closures capture only Copy scalars and reach no shared mutable state, clock/env/RNG APIs appear only in logger/progress/default-dir code, the data directory is only read (File::open/read_dir/metadata/DB::open+iteration), all file mutations are File::create/rename in the dump callbacks, and hash containers are iterated only at the known order-insensitive sites.',
  'note': TB + 'rayon\'s indexed-collect ordering guarantee and rusty-leveldb leaving key/value content unchanged are trusted, not decided.'},
]

NOT_APPLICABLE = []
_claimed = {c['id'] for c in CHECKS}
for _i in range(1, 18):
    _pid = 'C%02d' % _i
    if _pid not in _claimed and not any(n['property_id'] == _pid for n in NOT_APPLICABLE):
        NOT_APPLICABLE.append({'property_id': _pid, 'reason': 'static rules for this property are designed (DESIGN.md §3) but not yet implemented; not claimed until the check exists'})

