#!/usr/bin/env python3
"""apply a control from mutants/mutants.py to /repo, run all quick checks, print alarms, revert"""
import os, re, subprocess, sys
VERIF = os.path.dirname(os.path.dirname(os.path.abspath(__file__)))
sys.path.insert(0, os.path.join(VERIF, 'mutants'))
import mutants
def sh(c, cwd=None):
    return subprocess.run(c, shell=True, cwd=cwd, stdout=subprocess.PIPE, stderr=subprocess.STDOUT, text=True)
mid = sys.argv[1]
mut = [m for m in mutants.M if m['id'] == mid][0]
if sh('git -C /repo status --porcelain -- src').stdout.strip():
    sys.exit('refusing: /repo has local changes')
try:
    for (f, o, n) in [(mut['file'], mut['old'], mut['new'])] + mut.get('more', []):
        p = os.path.join('/repo', f)
        t = open(p).read()
        assert o in t, f
        open(p, 'w').write(t.replace(o, n, 1))
    cnt = 0
    for i in range(1, 18):
        pr = 'C%02d' % i
        r = sh('./check %s' % pr, VERIF)
        bad = [l for l in r.stdout.splitlines() if re.match(r'^(VIOLATION|UNRECOGNISED|VACUOUS|ERROR) ', l) and not l.startswith('VIOLATION property=')]
        if r.returncode or bad:
            cnt += 1
            for l in bad:
                print('%s: %s' % (pr, l[:300]))
    print('checks alarmed: %d' % cnt)
finally:
    sh('git -C /repo checkout -- .')
for i in range(1, 18):
    sh('./check C%02d' % i, VERIF)
