#!/usr/bin/env python3
"""run the refactoring suite (expect silence) and/or the seed suite (expect an alarm from the seed's own property) in
parallel: each worker owns a scratch git worktree of /repo under /tmp with its own cargo target and evidence directory
(RBP_REPO / RBP_TARGET_DIR / RBP_EVIDENCE_DIR), so /repo and /verif/evidence are never touched. Worktrees and their
build output are removed at the end.
usage: par_suite.py [-j N] refactors|seeds|both [name-substring...]"""
import glob, json, os, re, shutil, subprocess, sys, threading, queue
VERIF = os.path.dirname(os.path.dirname(os.path.abspath(__file__)))
REPO = '/repo'
args = sys.argv[1:]
J = 12
if args and args[0] == '-j':
    J = int(args[1]); args = args[2:]
mode = args[0] if args else 'both'
pats = args[1:]
ALL = ['C%02d' % i for i in range(1, 18)]

def sh(c, cwd=None, env=None):
    return subprocess.run(c, shell=True, cwd=cwd, env=env, stdout=subprocess.PIPE, stderr=subprocess.STDOUT, text=True)

jobs = []
if mode in ('refactors', 'both'):
    for f in sorted(glob.glob(os.path.join(VERIF, 'refactors', '*.diff'))):
        n = os.path.basename(f)
        if not pats or any(p in n for p in pats):
            jobs.append(('refactor', n, f, ALL))
if mode in ('seeds', 'both'):
    for d in sorted(glob.glob(os.path.join(VERIF, 'seeded', '*'))):
        n = os.path.basename(d)
        if not pats or any(p in n for p in pats):
            meta = json.load(open(os.path.join(d, 'meta.json')))
            jobs.append(('seed', n, os.path.join(d, 'patch.diff'), [meta['property']]))
q = queue.Queue()
for j in jobs:
    q.put(j)
results = {}
lock = threading.Lock()

def worker(i):
    wt = '/tmp/rbp-suite-%d' % i
    tgt, ev = wt + '-target', wt + '-evidence'
    with lock:
        sh('git -C %s worktree remove --force %s' % (REPO, wt)); shutil.rmtree(wt, ignore_errors=True)
    with lock:
        r = sh('git -C %s worktree add --detach %s HEAD' % (REPO, wt))
    if r.returncode:
        print('worker %d: %s' % (i, r.stdout)); return
    shutil.rmtree(tgt, ignore_errors=True); shutil.rmtree(ev, ignore_errors=True)
    src = os.path.join(VERIF, '.work', 'target')
    if os.path.isdir(src):
        sh('cp -r %s %s' % (src, tgt))
    os.makedirs(ev, exist_ok=True)
    env = dict(os.environ, RBP_REPO=wt, RBP_TARGET_DIR=tgt, RBP_EVIDENCE_DIR=ev)
    try:
        while True:
            try:
                kind, name, patch, props = q.get_nowait()
            except queue.Empty:
                break
            r = sh('git -C %s apply %s' % (wt, patch))
            if r.returncode:
                with lock:
                    results[(kind, name)] = ('NOAPPLY', [r.stdout.strip()[:200]])
                continue
            out = []
            for p in props:
                r = sh('./check %s' % p, VERIF, env)
                bad = [l for l in r.stdout.splitlines() if re.match(r'^(VIOLATION|UNRECOGNISED|VACUOUS|ERROR) ', l) and not l.startswith('VIOLATION property=')]
                if r.returncode and not bad:
                    bad = ['ERROR exit %d: %s' % (r.returncode, r.stdout.strip().splitlines()[-1][:200] if r.stdout.strip() else '')]
                out += ['%s: %s' % (p, l) for l in bad]
            sh('git -C %s checkout -- . && git -C %s clean -fdq src tests benches examples' % (wt, wt))
            with lock:
                results[(kind, name)] = ('ALARM' if out else 'SILENT', out)
    finally:
        sh('git -C %s worktree remove --force %s' % (REPO, wt))
        shutil.rmtree(wt, ignore_errors=True); shutil.rmtree(tgt, ignore_errors=True); shutil.rmtree(ev, ignore_errors=True)

ths = [threading.Thread(target=worker, args=(i,)) for i in range(min(J, max(1, len(jobs))))]
for t in ths: t.start()
for t in ths: t.join()
sh('git -C %s worktree prune' % REPO)

limits = {}
lp = os.path.join(VERIF, 'refactors', 'KNOWN_LIMITS.txt')
if os.path.exists(lp):
    for line in open(lp):
        if line.strip() and not line.startswith('#'):
            k, _, why = line.strip().partition(' ')
            limits[k] = why
bad = known = silent = missed = det = 0
for kind, name, patch, props in jobs:
    st, out = results.get((kind, name), ('NORESULT', []))
    if kind == 'refactor':
        if st == 'SILENT':
            silent += 1
            if name in limits:
                st = 'SILENT (listed as a known limit: remove it from KNOWN_LIMITS.txt)'
        elif name in limits and st == 'ALARM':
            st = 'KNOWN-LIMIT'; known += 1
        else:
            bad += 1
        print('%-11s %s' % (st, name))
        if st not in ('SILENT',):
            for l in out[:6]:
                print('            ' + l[:260])
    else:
        hard = [l for l in out if re.match(r'^%s: VIOLATION ' % props[0], l)]
        s2 = 'DETECTED' if hard else ('WEAK' if out else st if st != 'SILENT' else 'MISSED')
        if s2 == 'DETECTED':
            det += 1
        else:
            missed += 1
        print('%-11s %s  %s' % (s2, name, ', '.join(sorted(set(re.findall(r'(?:VIOLATION|UNRECOGNISED|VACUOUS) (\S+)', '\n'.join(out))))[:4])))
if mode in ('refactors', 'both'):
    print('refactorings: %d silent, %d alarm, %d known limit' % (silent, bad, known))
if mode in ('seeds', 'both'):
    print('seeds: %d detected by their own property check, %d not' % (det, missed))
sys.exit(1 if bad or missed else 0)
