#!/usr/bin/env python3
"""apply every behaviour-preserving refactoring under /verif/refactors to /repo in turn and expect all 17 checks to
stay silent (negative regression suite). usage: run_refactors.py [name-substring...]"""
import glob, os, subprocess, sys
VERIF = os.path.dirname(os.path.dirname(os.path.abspath(__file__)))
pats = sys.argv[1:]
bad = 0
for f in sorted(glob.glob(os.path.join(VERIF, 'refactors', '*.diff'))):
    name = os.path.basename(f)
    if pats and not any(p in name for p in pats):
        continue
    r = subprocess.run([sys.executable, os.path.join(VERIF, 'tools', 'try_patch.py'), f], stdout=subprocess.PIPE, stderr=subprocess.STDOUT, text=True)
    lines = [l for l in r.stdout.strip().splitlines()]
    status = 'SILENT' if r.returncode == 0 else 'ALARM'
    if r.returncode:
        bad += 1
    print('%-7s %s' % (status, name))
    for l in lines[:-1][:6]:
        print('        ' + l[:260])
print('refactorings that raised an alarm: %d' % bad)
