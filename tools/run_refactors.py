#!/usr/bin/env python3
"""apply every behaviour-preserving refactoring under /verif/refactors to /repo in turn and expect all 17 checks to
stay silent (negative regression suite). usage: run_refactors.py [name-substring...]"""
import glob, os, subprocess, sys
VERIF = os.path.dirname(os.path.dirname(os.path.abspath(__file__)))
pats = sys.argv[1:]
bad = 0
limits = {}
lp = os.path.join(VERIF, 'refactors', 'KNOWN_LIMITS.txt')
if os.path.exists(lp):
    for line in open(lp):
        if line.strip() and not line.startswith('#'):
            k, _, why = line.strip().partition(' ')
            limits[k] = why
known = 0
for f in sorted(glob.glob(os.path.join(VERIF, 'refactors', '*.diff'))):
    name = os.path.basename(f)
    if pats and not any(p in name for p in pats):
        continue
    r = subprocess.run([sys.executable, os.path.join(VERIF, 'tools', 'try_patch.py'), f], stdout=subprocess.PIPE, stderr=subprocess.STDOUT, text=True)
    lines = [l for l in r.stdout.strip().splitlines()]
    status = 'SILENT' if r.returncode == 0 else 'ALARM'
    if r.returncode and name in limits:
        status = 'KNOWN-LIMIT'
        known += 1
    elif r.returncode:
        bad += 1
    elif name in limits:
        status = 'SILENT (listed as a known limit: remove it from KNOWN_LIMITS.txt)' 
    print('%-7s %s' % (status, name))
    for l in lines[:-1][:6]:
        print('        ' + l[:260])
print('refactorings that raised an alarm: %d (+ %d listed in refactors/KNOWN_LIMITS.txt)' % (bad, known))
