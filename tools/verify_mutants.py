#!/usr/bin/env python3
"""For every control in mutants/mutants.py: apply to a scratch copy of /repo, run the unit tests (41 must pass)
and record the result in mutants/MANIFEST.json. Candidates the tests catch are marked `caught_by_tests` (they are
still useful as dead-rule detectors but are not 'test-invisible' breakages)."""
import json, os, re, shutil, subprocess, sys, tempfile
VERIF = os.path.dirname(os.path.dirname(os.path.abspath(__file__)))
sys.path.insert(0, os.path.join(VERIF, 'mutants'))
sys.path.insert(0, os.path.join(VERIF, 'analysis'))
import mutants, controls
env = dict(os.environ, CARGO_NET_OFFLINE='true', CARGO_TARGET_DIR='/tmp/mut-target')
only = sys.argv[1:]
mp = os.path.join(VERIF, 'mutants', 'MANIFEST.json')
out = json.load(open(mp)) if only and os.path.exists(mp) else {}
for mut in mutants.M:
    if only and mut['id'] not in only:
        continue
    src = os.path.join('/repo', mut['file'])
    text = open(src).read()
    if mut['old'] not in text:
        out[mut['id']] = {'status': 'stale'}
        continue
    d, dst = controls.scratch_copy('/repo')
    try:
        open(os.path.join(dst, mut['file']), 'w').write(text.replace(mut['old'], mut['new'], 1))
        for f2, o2, n2 in mut.get('more', []):
            t2 = open(os.path.join(dst, f2)).read()
            open(os.path.join(dst, f2), 'w').write(t2.replace(o2, n2, 1))
        r = subprocess.run('cargo test --offline 2>&1', shell=True, cwd=dst, env=env, stdout=subprocess.PIPE, text=True)
        m = re.findall(r'test result: (\w+)\. (\d+) passed; (\d+) failed', r.stdout)
        failed = re.findall(r'^test (\S+) \.\.\. FAILED', r.stdout, re.M)
        compiles = 'error: could not compile' not in r.stdout
        out[mut['id']] = {'property': mut['property'], 'negative': bool(mut.get('silent')), 'compiles': compiles,
                          'tests': m, 'failed_tests': failed, 'passes_41': r.returncode == 0 and m and int(m[0][1]) == 41}
        print(mut['id'], out[mut['id']]['passes_41'], failed[:2], flush=True)
    finally:
        shutil.rmtree(d, ignore_errors=True)
json.dump(out, open(os.path.join(VERIF, 'mutants', 'MANIFEST.json'), 'w'), indent=1)
shutil.rmtree('/tmp/mut-target', ignore_errors=True)
