#!/usr/bin/env python3
"""apply every seeded change under /verif/seeded to /repo in turn, run the checks and expect an alarm (positive
regression suite: each seed breaks its property while compiling and passing the 41 unit tests).
usage: run_seeds.py [--all-props] [name-substring...]   (default: only the seed's own property check is run)"""
import glob, json, os, re, subprocess, sys
VERIF = os.path.dirname(os.path.dirname(os.path.abspath(__file__)))
args = sys.argv[1:]
allp = '--all-props' in args
pats = [a for a in args if not a.startswith('--')]
missed = 0
for d in sorted(glob.glob(os.path.join(VERIF, 'seeded', '*'))):
    name = os.path.basename(d)
    if pats and not any(p in name for p in pats):
        continue
    meta = json.load(open(os.path.join(d, 'meta.json')))
    props = [] if allp else [meta['property']]
    r = subprocess.run([sys.executable, os.path.join(VERIF, 'tools', 'try_patch.py'), os.path.join(d, 'patch.diff')] + props,
                       stdout=subprocess.PIPE, stderr=subprocess.STDOUT, text=True)
    keys = sorted(set(re.findall(r'^(C\d\d): (?:VIOLATION|UNRECOGNISED|VACUOUS) (\S+)', r.stdout, re.M)))
    own = [k for p, k in keys if p == meta['property']]
    hard = [l for l in r.stdout.splitlines() if re.match(r'^%s: VIOLATION ' % meta['property'], l)]
    status = 'DETECTED' if hard else ('WEAK' if own else ('OTHER' if keys else 'MISSED'))
    if status != 'DETECTED':
        missed += 1
    print('%-8s %-8s %s' % (status, name, ', '.join(k for _, k in keys[:5])))
print('seeds not reported as a violation by their own property check: %d' % missed)
sys.exit(1 if missed else 0)
