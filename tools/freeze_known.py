#!/usr/bin/env python3
"""(re)write analysis/known_functions.txt and analysis/known_signatures.json from /repo's CURRENT tree.
Run only when the reference tree changes on purpose (e.g. after a fix: commit): these two files define which
functions count as 'already there' for helper inlining and rename detection (DESIGN §2.2a)."""
import json, os, sys
HERE = os.path.dirname(os.path.dirname(os.path.abspath(__file__)))
sys.path.insert(0, os.path.join(HERE, 'analysis'))
import facts as factsmod
f = factsmod.extract('dev')
paths = sorted(b['path'] for b in f['bodies'])
sigs = {}
for b in f['bodies']:
    if b.get('kind') in ('Fn', 'AssocFn'):
        n = b['arg_count']
        callees = sorted(set((blk['term'].get('func', {}).get('fn', {}) or {}).get('path', '') for blk in b['blocks'] if blk['term'] and blk['term']['k'] == 'call') - {''})
        sigs[b['path']] = {'args': [l['ty'] for l in b['locals'][1:1 + n]], 'ret': b['locals'][0]['ty'], 'callees': callees}
adts = {}
for a in f['adts']:
    if a.get('kind') == 'Struct' and len(a['variants']) == 1:
        adts[a['path']] = [[fl['name'], fl['ty']] for fl in a['variants'][0]['fields']]
json.dump(adts, open(os.path.join(HERE, 'analysis', 'known_structs.json'), 'w'), indent=0, sort_keys=True)
def adt_sig(a):
    self_name = a['path']
    return json.dumps([a.get('kind'), [[v['name'] if v['name'] != self_name.rsplit('::', 1)[-1] else '$self', [[fl['name'], fl['ty'].replace(self_name, '$self')] for fl in v['fields']]] for v in a['variants']]])
json.dump({a['path']: adt_sig(a) for a in f['adts']}, open(os.path.join(HERE, 'analysis', 'known_adts.json'), 'w'), indent=0, sort_keys=True)
open(os.path.join(HERE, 'analysis', 'known_functions.txt'), 'w').write('\n'.join(paths) + '\n')
json.dump(sigs, open(os.path.join(HERE, 'analysis', 'known_signatures.json'), 'w'), indent=0, sort_keys=True)
print('%d bodies, %d function signatures' % (len(paths), len(sigs)))
