#!/usr/bin/env python3
"""Confirm a seeded change produced by a sub-agent and run all checks against it.
usage: confirm_seed.py <seed-id> <property> <dir with patch.diff demo.diff README.md>
 1. fresh scratch worktree of /repo HEAD under /tmp; demo only  -> cargo test must pass entirely
 2. + patch                                                   -> existing tests pass, demo test(s) fail
 3. apply patch.diff to /repo, run every check (quick), undo; record which checks report what
 4. store under /verif/seeded/<seed-id>/ (patch.diff, demo.diff, README.md, meta.json)"""
import json, os, re, shutil, subprocess, sys, time
VERIF = os.path.dirname(os.path.dirname(os.path.abspath(__file__)))
REPO = '/repo'
sid, prop, src = sys.argv[1], sys.argv[2], sys.argv[3]
wt = '/tmp/confirm-%s' % sid
env = dict(os.environ, CARGO_NET_OFFLINE='true', CARGO_TARGET_DIR='/tmp/confirm-target')

def sh(cmd, cwd=None, check=False):
    r = subprocess.run(cmd, shell=True, cwd=cwd, env=env, stdout=subprocess.PIPE, stderr=subprocess.STDOUT, text=True)
    if check and r.returncode != 0:
        print(r.stdout[-3000:]); sys.exit('FAILED: ' + cmd)
    return r

def tests(cwd):
    r = sh('cargo test --offline 2>&1', cwd)
    m = re.findall(r'test result: (\w+)\. (\d+) passed; (\d+) failed', r.stdout)
    failed = re.findall(r'^test (\S+) \.\.\. FAILED', r.stdout, re.M)
    return r.returncode, m, failed, r.stdout

sh('git -C %s worktree remove --force %s' % (REPO, wt))
sh('git -C %s worktree add --detach %s HEAD' % (REPO, wt), check=True)
meta = {'id': sid, 'property': prop, 'confirmed_at': time.strftime('%Y-%m-%dT%H:%M:%S'), 'repo_head': sh('git -C %s rev-parse --short HEAD' % REPO).stdout.strip()}
try:
    sh('git apply %s/demo.diff' % src, wt, check=True)
    rc, res, failed, out = tests(wt)
    meta['original_plus_demo'] = {'rc': rc, 'results': res, 'failed': failed}
    ok1 = rc == 0 and not failed
    sh('git apply %s/patch.diff' % src, wt, check=True)
    rc, res, failed, out = tests(wt)
    meta['patched_plus_demo'] = {'rc': rc, 'results': res, 'failed': failed}
    total_pass = sum(int(x[1]) for x in res)
    ok2 = rc != 0 and failed and all('seed' in f or 'demo' in f for f in failed) and total_pass >= 41
    # patched without demo: the 41 tests
    sh('git checkout -- . && git clean -fdq src tests benches examples', wt)
    sh('git apply %s/patch.diff' % src, wt, check=True)
    rc, res, failed, out = tests(wt)
    meta['patched_only'] = {'rc': rc, 'results': res, 'failed': failed}
    ok3 = rc == 0 and sum(int(x[1]) for x in res) == 41
    meta['confirmed'] = bool(ok1 and ok2 and ok3)
finally:
    sh('git -C %s worktree remove --force %s' % (REPO, wt))
print('confirmed:', meta.get('confirmed'), meta.get('original_plus_demo'), meta.get('patched_plus_demo'), meta.get('patched_only'))
# run checks against the patch in /repo
st = sh('git -C %s status --porcelain -- src' % REPO).stdout.strip()
if st:
    sys.exit('refusing: /repo has local changes')
det = {}
sh('git -C %s apply %s/patch.diff' % (REPO, src), check=True)
try:
    for i in range(1, 18):
        p = 'C%02d' % i
        r = sh('./check %s' % p, VERIF)
        keys = re.findall(r'^(?:VIOLATION|UNRECOGNISED|VACUOUS) (.+?) at ', r.stdout, re.M)
        if r.returncode != 0 or keys:
            det[p] = keys
finally:
    sh('git -C %s checkout -- .' % REPO)
meta['detected_by'] = det
print('detected by:', json.dumps(det, indent=1)[:3000])
# restore evidence for the unchanged tree
for i in range(1, 18):
    p = 'C%02d' % i
    if p in det:
        sh('./check %s' % p, VERIF)
dst = os.path.join(VERIF, 'seeded', sid)
os.makedirs(dst, exist_ok=True)
for f in ('patch.diff', 'demo.diff', 'README.md'):
    shutil.copy2(os.path.join(src, f), os.path.join(dst, f))
meta['needs'] = ''
meta['what_ran'] = ['cargo test --offline on original+demo, patched+demo, patched only (scratch worktree %s)' % wt, './check C01..C17 (quick) with patch.diff applied to /repo, then reverted']
json.dump(meta, open(os.path.join(dst, 'meta.json'), 'w'), indent=1)
