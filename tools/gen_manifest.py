#!/usr/bin/env python3
"""Regenerates /verif/MANIFEST.json from the table below (single source of truth)."""
import json, os, subprocess, sys
HERE = os.path.dirname(os.path.dirname(os.path.abspath(__file__)))
sys.path.insert(0, os.path.join(HERE, 'tools'))
from manifest_table import CHECKS, NOT_APPLICABLE, SOURCE_COMMITS

def main():
    checks = []
    for c in CHECKS:
        pid = c['id']
        checks.append({
            'property_id': pid,
            'quick_cmd': './check %s --tier quick' % pid,
            'thorough_cmd': './check %s --tier thorough' % pid,
            'evidence_file': '/verif/evidence/%s.json' % pid,
            'replay_cmd_template': './check %s --explain {path}' % pid,
            'engine': 'mir-rules',
            'level_claimed': {'category': 'other', 'text': c['text'], 'design_ref': c['design_ref']},
            'level_note': c['note'],
            'technique': c['technique'],
        })
    m = {
        'version': 1,
        'setup_cmd': './setup.sh',
        'hooks': {
            'guard': 'rbp_verif',
            'enable': 'none: the checks analyse /repo as built by `cargo +nightly check` (dev and release profiles); no hooks or instrumentation are compiled in, the guard name is reserved and unused',
            'baseline_off_cmd': 'cd /repo && cargo test --workspace --no-fail-fast --offline',
            'source_commits': SOURCE_COMMITS,
            'add_only': True,
        },
        'engines': [
            {'name': 'mir-facts', 'path': 'driver/', 'serves_properties': [c['id'] for c in CHECKS],
             'kind_free_text': 'rustc_private driver (RUSTC_WORKSPACE_WRAPPER under cargo +nightly check): dumps type-checked MIR with resolved callees, evaluated constants and named fields as JSON; no rule logic'},
            {'name': 'mir-rules', 'path': 'analysis/', 'serves_properties': [c['id'] for c in CHECKS],
             'kind_free_text': 'python3-stdlib static rule engine over the MIR facts: CFG/dominators, must-hold edge-fact dataflow, provenance expressions with bounded inlining, call graph with virtual expansion, typestate/path enumeration, format-template decoding, interval analysis for panic sites; per-property rules in analysis/rules/'},
        ],
        'checks': checks,
        'not_applicable': NOT_APPLICABLE,
        'notes': 'Static analysis only. Every check re-extracts facts from /repo\'s working tree on each run. Known findings: /verif/known_findings.json. See DESIGN.md.',
    }
    with open(os.path.join(HERE, 'MANIFEST.json'), 'w') as f:
        json.dump(m, f, indent=1)
    print('MANIFEST.json written: %d checks, %d not_applicable' % (len(checks), len(NOT_APPLICABLE)))

if __name__ == '__main__':
    main()
