#!/usr/bin/env python3
"""apply a patch to /repo, run all 17 quick checks, print every alarm, revert. Exit code = number of checks that alarmed."""
import os, re, subprocess, sys
VERIF = os.path.dirname(os.path.dirname(os.path.abspath(__file__)))
patch = os.path.abspath(sys.argv[1])
props = sys.argv[2:] or ['C%02d' % i for i in range(1, 18)]
def sh(c, cwd=None):
    return subprocess.run(c, shell=True, cwd=cwd, stdout=subprocess.PIPE, stderr=subprocess.STDOUT, text=True)
if sh('git -C /repo status --porcelain -- src').stdout.strip():
    sys.exit('refusing: /repo has local changes')
r = sh('git -C /repo apply %s' % patch)
if r.returncode:
    sys.exit('patch does not apply: ' + r.stdout)
n = 0
try:
    for p in props:
        r = sh('./check %s' % p, VERIF)
        bad = [l for l in r.stdout.splitlines() if re.match(r'^(VIOLATION|UNRECOGNISED|VACUOUS|ERROR) ', l) and not l.startswith('VIOLATION property=')]
        if r.returncode or bad:
            n += 1
            for l in bad:
                print('%s: %s' % (p, l[:400]))
finally:
    sh('git -C /repo checkout -- .')
    sh('git -C /repo clean -fdq src tests benches examples')
for p in props:
    sh('./check %s' % p, VERIF)
print('checks alarmed: %d' % n)
sys.exit(n)
