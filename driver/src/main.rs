//! E1 — MIR fact extractor for rusty-blockparser (rustc_private driver).
//!
//! Used as RUSTC_WORKSPACE_WRAPPER under `cargo +nightly check`. For the crate
//! `rusty_blockparser` it dumps, after analysis, one JSON document with the type-checked
//! program: ADTs, impls, constants and every MIR body (resolved callees, evaluated constants,
//! named field projections, source positions). It contains no rule logic.
#![feature(rustc_private)]
#![feature(box_patterns)]

extern crate rustc_abi;
extern crate rustc_driver;
extern crate rustc_hir;
extern crate rustc_interface;
extern crate rustc_middle;
extern crate rustc_span;

mod json;

use json::J;
use rustc_driver::Compilation;
use rustc_hir::def::DefKind;
use rustc_hir::def_id::{DefId, LOCAL_CRATE};
use rustc_middle::mir::{
    self, AggregateKind, BasicBlockData, Body, Const, ConstValue, Operand, Place, PlaceElem,
    Rvalue, StatementKind, TerminatorKind, VarDebugInfoContents,
};
use rustc_middle::ty::print::{with_no_trimmed_paths, PrintTraitRefExt};
use rustc_middle::ty::{self, Ty, TyCtxt};
use rustc_span::Span;

const SCHEMA_VERSION: u64 = 3;
const TARGET_CRATE: &str = "rusty_blockparser";

struct Cb;

impl rustc_driver::Callbacks for Cb {
    fn after_analysis<'tcx>(
        &mut self,
        _c: &rustc_interface::interface::Compiler,
        tcx: TyCtxt<'tcx>,
    ) -> Compilation {
        if tcx.crate_name(LOCAL_CRATE).as_str() == TARGET_CRATE {
            if let Ok(out) = std::env::var("RBP_FACTS_OUT") {
                let doc = with_no_trimmed_paths!(extract(tcx));
                let mut s = String::new();
                doc.render(&mut s);
                std::fs::write(&out, s).expect("cannot write facts");
            }
        }
        Compilation::Continue
    }
}

fn main() {
    let mut args: Vec<String> = std::env::args().collect();
    // as RUSTC_WORKSPACE_WRAPPER: argv[1] is the real rustc path
    if args.len() > 1 && (args[1].ends_with("rustc") || args[1].contains("/rustc")) {
        args.remove(1);
    }
    let mut cb = Cb;
    rustc_driver::run_compiler(&args, &mut cb);
}

fn s(x: impl Into<String>) -> J {
    J::Str(x.into())
}
fn n(x: impl Into<i128>) -> J {
    J::Num(x.into().to_string())
}
fn obj(v: Vec<(&str, J)>) -> J {
    J::Obj(v.into_iter().map(|(k, v)| (k.to_string(), v)).collect())
}

struct Cx<'tcx> {
    tcx: TyCtxt<'tcx>,
}

fn extract<'tcx>(tcx: TyCtxt<'tcx>) -> J {
    let cx = Cx { tcx };
    let mut bodies = Vec::new();
    let mut n_unsafe = 0i128;
    let mut consts = Vec::new();
    for ldid in tcx.hir_body_owners() {
        let did = ldid.to_def_id();
        let kind = tcx.def_kind(did);
        match kind {
            DefKind::Fn | DefKind::AssocFn | DefKind::Closure => {
                let body = tcx.optimized_mir(did);
                let mut b = cx.body(did, body, kind);
                // promoted constants
                let proms = tcx.promoted_mir(did);
                let mut pv = Vec::new();
                for p in proms.iter() {
                    pv.push(cx.body_inner(did, p));
                }
                if let J::Obj(ref mut v) = b {
                    v.push(("promoted".to_string(), J::Arr(pv)));
                }
                // unsafe blocks: count via THIR-free heuristic — HIR fn header / blocks
                n_unsafe += cx.count_unsafe(ldid);
                bodies.push(b);
            }
            DefKind::Const { .. } | DefKind::AssocConst { .. } | DefKind::Static { .. } => {
                let ty = tcx.type_of(did).instantiate_identity().skip_norm_wip();
                // statics are not evaluated (const_eval_poly asserts on them); generic consts fail with Err
                let is_static = matches!(kind, DefKind::Static { .. });
                let val = if is_static {
                    J::Null
                } else {
                    match tcx.const_eval_poly(did) {
                        Ok(cv) => cx.const_value(cv, ty),
                        Err(_) => J::Null,
                    }
                };
                consts.push(obj(vec![
                    ("path", s(tcx.def_path_str(did))),
                    ("ty", s(format!("{}", ty))),
                    ("val", val),
                ]));
            }
            _ => {}
        }
    }

    // ADTs, impls, traits
    let mut adts = Vec::new();
    let mut impls = Vec::new();
    let mut traits = Vec::new();
    for ldid in tcx.hir_crate_items(()).definitions() {
        let did = ldid.to_def_id();
        match tcx.def_kind(did) {
            DefKind::Struct | DefKind::Enum | DefKind::Union => {
                let adt = tcx.adt_def(did);
                let mut vars = Vec::new();
                for v in adt.variants().iter() {
                    let mut fields = Vec::new();
                    for f in v.fields.iter() {
                        let fty = tcx.type_of(f.did).instantiate_identity().skip_norm_wip();
                        fields.push(obj(vec![
                            ("name", s(f.name.as_str())),
                            ("ty", s(format!("{}", fty))),
                        ]));
                    }
                    vars.push(obj(vec![("name", s(v.name.as_str())), ("fields", J::Arr(fields))]));
                }
                adts.push(obj(vec![
                    ("path", s(tcx.def_path_str(did))),
                    ("kind", s(format!("{:?}", tcx.def_kind(did)))),
                    ("variants", J::Arr(vars)),
                    ("span", cx.span(tcx.def_span(did))),
                ]));
            }
            DefKind::Impl { of_trait } => {
                let self_ty = tcx.type_of(did).instantiate_identity().skip_norm_wip();
                let tr = if of_trait {
                    let tr = tcx.impl_trait_ref(did).instantiate_identity().skip_norm_wip();
                    s(format!("{}", tr.print_only_trait_path()))
                } else {
                    J::Null
                };
                let mut items = Vec::new();
                for it in tcx.associated_item_def_ids(did) {
                    items.push(s(tcx.def_path_str(*it)));
                }
                impls.push(obj(vec![
                    ("self_ty", s(format!("{}", self_ty))),
                    ("trait", tr),
                    ("items", J::Arr(items)),
                ]));
            }
            DefKind::Trait => {
                let mut items = Vec::new();
                for it in tcx.associated_item_def_ids(did) {
                    let ai = tcx.associated_item(*it);
                    items.push(obj(vec![
                        ("path", s(tcx.def_path_str(*it))),
                        ("has_default", J::Bool(ai.defaultness(tcx).has_value())),
                    ]));
                }
                traits.push(obj(vec![("path", s(tcx.def_path_str(did))), ("items", J::Arr(items))]));
            }
            _ => {}
        }
    }

    let sess = tcx.sess;
    let meta = obj(vec![
        ("schema", n(SCHEMA_VERSION as i128)),
        ("rustc", s(option_env!("CFG_VERSION").unwrap_or("nightly").to_string())),
        ("crate", s(TARGET_CRATE)),
        ("nonce", s(std::env::var("RBP_NONCE").unwrap_or_default())),
        ("debug_assertions", J::Bool(sess.opts.debug_assertions)),
        ("overflow_checks", J::Bool(sess.overflow_checks())),
        ("opt_level", s(format!("{:?}", sess.opts.optimize))),
        ("test_cfg", J::Bool(sess.is_test_crate())),
        ("body_count", n(bodies.len() as i128)),
        ("unsafe_blocks", n(n_unsafe)),
    ]);
    obj(vec![
        ("meta", meta),
        ("adts", J::Arr(adts)),
        ("impls", J::Arr(impls)),
        ("traits", J::Arr(traits)),
        ("consts", J::Arr(consts)),
        ("bodies", J::Arr(bodies)),
    ])
}

impl<'tcx> Cx<'tcx> {
    fn count_unsafe(&self, ldid: rustc_hir::def_id::LocalDefId) -> i128 {
        use rustc_hir::intravisit::{self, Visitor};
        struct V(i128);
        impl<'v> Visitor<'v> for V {
            fn visit_block(&mut self, b: &'v rustc_hir::Block<'v>) {
                if let rustc_hir::BlockCheckMode::UnsafeBlock(src) = b.rules {
                    if let rustc_hir::UnsafeSource::UserProvided = src {
                        self.0 += 1;
                    }
                }
                intravisit::walk_block(self, b);
            }
        }
        let mut v = V(0);
        if let Some(body) = self.tcx.hir_maybe_body_owned_by(ldid) {
            v.visit_body(body);
        }
        // unsafe fn
        if matches!(self.tcx.def_kind(ldid), DefKind::Fn | DefKind::AssocFn) {
            let sig = self.tcx.fn_sig(ldid.to_def_id()).instantiate_identity().skip_norm_wip();
            if sig.safety().is_unsafe() {
                v.0 += 1;
            }
        }
        v.0
    }

    fn span(&self, sp: Span) -> J {
        let sm = self.tcx.sess.source_map();
        let call = sp.source_callsite();
        let lo = sm.lookup_char_pos(call.lo());
        let hi = sm.lookup_char_pos(call.hi());
        let file = match &lo.file.name {
            rustc_span::FileName::Real(r) => r
                .local_path()
                .map(|p| p.to_string_lossy().to_string())
                .unwrap_or_else(|| format!("{:?}", r)),
            other => format!("{:?}", other),
        };
        let mut v = vec![
            ("file", s(file)),
            ("line", n(lo.line as i128)),
            ("col", n(lo.col.0 as i128 + 1)),
            ("end_line", n(hi.line as i128)),
        ];
        if sp.from_expansion() {
            v.push(("exp", J::Bool(true)));
            let mut names = Vec::new();
            for ed in sp.macro_backtrace() {
                match ed.kind {
                    rustc_span::ExpnKind::Macro(_, name) => names.push(s(name.as_str())),
                    rustc_span::ExpnKind::Desugaring(d) => names.push(s(format!("desugar:{:?}", d))),
                    rustc_span::ExpnKind::AstPass(p) => names.push(s(format!("astpass:{:?}", p))),
                    _ => {}
                }
            }
            v.push(("macros", J::Arr(names)));
        }
        obj(v)
    }

    fn snippet(&self, sp: Span) -> J {
        let sm = self.tcx.sess.source_map();
        match sm.span_to_snippet(sp.source_callsite()) {
            Ok(mut t) => {
                if t.len() > 240 {
                    let mut cut = 240;
                    while !t.is_char_boundary(cut) {
                        cut -= 1;
                    }
                    t.truncate(cut);
                }
                s(t)
            }
            Err(_) => J::Null,
        }
    }

    fn body(&self, did: DefId, body: &Body<'tcx>, kind: DefKind) -> J {
        let tcx = self.tcx;
        let mut b = self.body_inner(did, body);
        let mut extra: Vec<(String, J)> = Vec::new();
        extra.push(("path".into(), s(tcx.def_path_str(did))));
        extra.push(("kind".into(), s(format!("{:?}", kind))));
        extra.push(("span".into(), self.span(tcx.def_span(did))));
        // full span of the item (for line ranges)
        {
            let sm = tcx.sess.source_map();
            let lo = sm.lookup_char_pos(body.span.lo());
            let hi = sm.lookup_char_pos(body.span.hi());
            extra.push(("line_lo".into(), n(lo.line as i128)));
            extra.push(("line_hi".into(), n(hi.line as i128)));
        }
        // impl / trait parent
        let parent = if matches!(kind, DefKind::Closure) { tcx.typeck_root_def_id(did) } else { did };
        if matches!(tcx.def_kind(parent), DefKind::AssocFn) {
            let container = tcx.parent(parent);
            match tcx.def_kind(container) {
                DefKind::Impl { of_trait } => {
                    let self_ty = tcx.type_of(container).instantiate_identity().skip_norm_wip();
                    extra.push(("impl_self".into(), s(format!("{}", self_ty))));
                    if of_trait {
                        let tr = tcx.impl_trait_ref(container).instantiate_identity().skip_norm_wip();
                        extra.push(("impl_trait".into(), s(format!("{}", tr.print_only_trait_path()))));
                    }
                }
                DefKind::Trait => {
                    extra.push(("trait_default_of".into(), s(tcx.def_path_str(container))));
                }
                _ => {}
            }
        }
        if matches!(kind, DefKind::Closure) {
            extra.push(("closure_parent".into(), s(tcx.def_path_str(tcx.parent(did)))));
            extra.push(("closure_root".into(), s(tcx.def_path_str(parent))));
        }
        if matches!(kind, DefKind::Fn | DefKind::AssocFn) {
            let vis = tcx.visibility(did);
            extra.push(("vis".into(), s(format!("{:?}", vis))));
        }
        if let J::Obj(ref mut v) = b {
            extra.append(v);
            *v = extra;
        }
        b
    }

    fn body_inner(&self, owner: DefId, body: &Body<'tcx>) -> J {
        let tcx = self.tcx;
        let mut locals = Vec::new();
        for (l, d) in body.local_decls.iter_enumerated() {
            let mut v = vec![("ty", s(format!("{}", d.ty)))];
            if d.mutability.is_mut() {
                v.push(("mut", J::Bool(true)));
            }
            let _ = l;
            locals.push(obj(v));
        }
        let mut dbg = Vec::new();
        for vdi in body.var_debug_info.iter() {
            let val = match &vdi.value {
                VarDebugInfoContents::Place(p) => self.place(body, p),
                VarDebugInfoContents::Const(c) => self.constant(owner, c),
            };
            dbg.push(obj(vec![
                ("name", s(vdi.name.as_str())),
                ("val", val),
                ("arg", match vdi.argument_index { Some(i) => n(i as i128), None => J::Null }),
            ]));
        }
        let mut blocks = Vec::new();
        for (_bb, data) in body.basic_blocks.iter_enumerated() {
            blocks.push(self.block(owner, body, data));
        }
        obj(vec![
            ("arg_count", n(body.arg_count as i128)),
            ("locals", J::Arr(locals)),
            ("debug", J::Arr(dbg)),
            ("blocks", J::Arr(blocks)),
        ])
    }

    fn place(&self, body: &Body<'tcx>, p: &Place<'tcx>) -> J {
        let tcx = self.tcx;
        let mut proj = Vec::new();
        let mut pty = mir::PlaceTy::from_ty(body.local_decls[p.local].ty);
        for elem in p.projection.iter() {
            let j = match elem {
                PlaceElem::Deref => obj(vec![("k", s("deref"))]),
                PlaceElem::Field(f, fty) => {
                    let mut name = format!("{}", f.index());
                    let mut owner_adt = J::Null;
                    if let ty::Adt(def, _) = pty.ty.kind() {
                        let vidx = pty.variant_index.unwrap_or(rustc_abi::FIRST_VARIANT);
                        let var = def.variant(vidx);
                        if f.index() < var.fields.len() {
                            name = var.fields[f].name.as_str().to_string();
                        }
                        owner_adt = s(tcx.def_path_str(def.did()));
                    }
                    obj(vec![
                        ("k", s("field")),
                        ("name", s(name)),
                        ("idx", n(f.index() as i128)),
                        ("ty", s(format!("{}", fty))),
                        ("of", owner_adt),
                    ])
                }
                PlaceElem::Index(l) => obj(vec![("k", s("index")), ("local", n(l.index() as i128))]),
                PlaceElem::ConstantIndex { offset, min_length, from_end } => obj(vec![
                    ("k", s("cindex")),
                    ("offset", n(offset as i128)),
                    ("min_length", n(min_length as i128)),
                    ("from_end", J::Bool(from_end)),
                ]),
                PlaceElem::Subslice { from, to, from_end } => obj(vec![
                    ("k", s("subslice")),
                    ("from", n(from as i128)),
                    ("to", n(to as i128)),
                    ("from_end", J::Bool(from_end)),
                ]),
                PlaceElem::Downcast(name, vidx) => obj(vec![
                    ("k", s("downcast")),
                    ("variant", match name { Some(sy) => s(sy.as_str()), None => n(vidx.index() as i128) }),
                ]),
                PlaceElem::OpaqueCast(_) => obj(vec![("k", s("opaquecast"))]),
                PlaceElem::UnwrapUnsafeBinder(_) => obj(vec![("k", s("unwrapbinder"))]),
            };
            proj.push(j);
            pty = pty.projection_ty(tcx, elem);
        }
        obj(vec![
            ("l", n(p.local.index() as i128)),
            ("p", J::Arr(proj)),
            ("ty", s(format!("{}", pty.ty))),
        ])
    }

    fn operand(&self, owner: DefId, body: &Body<'tcx>, op: &Operand<'tcx>) -> J {
        match op {
            Operand::Copy(p) => obj(vec![("k", s("copy")), ("place", self.place(body, p))]),
            Operand::Move(p) => obj(vec![("k", s("move")), ("place", self.place(body, p))]),
            Operand::Constant(c) => self.constant(owner, c),
            #[allow(unreachable_patterns)]
            _ => obj(vec![("k", s("other")), ("dbg", s(format!("{:?}", op)))]),
        }
    }

    fn constant(&self, owner: DefId, c: &mir::ConstOperand<'tcx>) -> J {
        let tcx = self.tcx;
        let ty = c.const_.ty();
        let mut v = vec![("k", s("const")), ("ty", s(format!("{}", ty)))];
        // fn items
        if let ty::FnDef(def, args) = ty.kind() {
            v.push(("fn", self.fn_ref(owner, *def, args)));
            return obj(v);
        }
        // named constant?
        if let Const::Unevaluated(uv, _) = c.const_ {
            v.push(("named", s(tcx.def_path_str(uv.def))));
            if uv.promoted.is_some() {
                v.push(("promoted", n(uv.promoted.unwrap().index() as i128)));
            }
        }
        let env = ty::TypingEnv::post_analysis(tcx, owner);
        match c.const_.eval(tcx, env, c.span) {
            Ok(cv) => v.push(("val", self.const_value(cv, ty))),
            Err(_) => v.push(("val", J::Null)),
        }
        obj(v)
    }

    fn const_value(&self, cv: ConstValue, ty: Ty<'tcx>) -> J {
        let tcx = self.tcx;
        match cv {
            ConstValue::Scalar(mir::interpret::Scalar::Int(si)) => {
                let bits = si.to_bits(si.size());
                let signed = matches!(ty.kind(), ty::Int(_));
                let val: i128 = if signed {
                    let sz = si.size().bits();
                    if sz == 128 { bits as i128 } else {
                        let shift = 128 - sz;
                        ((bits << shift) as i128) >> shift
                    }
                } else { bits as i128 };
                if matches!(ty.kind(), ty::Bool) {
                    obj(vec![("bool", J::Bool(bits != 0))])
                } else if matches!(ty.kind(), ty::Char) {
                    obj(vec![("int", J::Num(val.to_string())), ("char", s(char::from_u32(bits as u32).map(|c| c.to_string()).unwrap_or_default()))])
                } else if matches!(ty.kind(), ty::Float(_)) {
                    let f = if si.size().bytes() == 8 { f64::from_bits(bits as u64) } else { f32::from_bits(bits as u32) as f64 };
                    obj(vec![("float", s(format!("{:?}", f)))])
                } else if bits > i128::MAX as u128 && !signed {
                    obj(vec![("int", J::Num(bits.to_string()))])
                } else {
                    obj(vec![("int", J::Num(val.to_string()))])
                }
            }
            ConstValue::Scalar(mir::interpret::Scalar::Ptr(ptr, _)) => {
                // pointer to an allocation: dump bytes if it is plain memory
                let (prov, off) = ptr.into_raw_parts();
                let aid = prov.alloc_id();
                self.alloc_bytes(aid, off.bytes() as usize, ty)
            }
            ConstValue::ZeroSized => obj(vec![("zst", J::Bool(true))]),
            ConstValue::Slice { .. } => {
                match cv.try_get_slice_bytes_for_diagnostics(tcx) {
                    Some(bytes) => {
                        let is_str = matches!(ty.kind(), ty::Ref(_, inner, _) if inner.is_str());
                        if is_str {
                            obj(vec![("str", s(String::from_utf8_lossy(bytes).to_string()))])
                        } else {
                            obj(vec![("bytes", J::Arr(bytes.iter().map(|b| n(*b as i128)).collect()))])
                        }
                    }
                    None => obj(vec![("slice", J::Null)]),
                }
            }
            ConstValue::Indirect { alloc_id, offset } => self.alloc_bytes(alloc_id, offset.bytes() as usize, ty),
        }
    }

    fn alloc_bytes(&self, aid: mir::interpret::AllocId, off: usize, _ty: Ty<'tcx>) -> J {
        let tcx = self.tcx;
        match tcx.try_get_global_alloc(aid) {
            Some(mir::interpret::GlobalAlloc::Memory(alloc)) => {
                let a = alloc.inner();
                let len = a.len();
                let has_ptrs = !a.provenance().ptrs().is_empty();
                let bytes = a.inspect_with_uninit_and_ptr_outside_interpreter(off..len);
                let mut v = vec![
                    ("alloc_bytes", J::Arr(bytes.iter().map(|b| n(*b as i128)).collect())),
                ];
                if has_ptrs {
                    v.push(("has_ptrs", J::Bool(true)));
                    // follow inner pointers one level (e.g. &[&str])
                    let mut inner = Vec::new();
                    for (poff, prov) in a.provenance().ptrs().iter() {
                        inner.push(obj(vec![
                            ("at", n(poff.bytes() as i128)),
                            ("to", self.alloc_bytes(prov.alloc_id(), 0, _ty)),
                        ]));
                    }
                    v.push(("ptrs", J::Arr(inner)));
                }
                obj(v)
            }
            Some(mir::interpret::GlobalAlloc::Static(did)) => obj(vec![("static", s(tcx.def_path_str(did)))]),
            Some(mir::interpret::GlobalAlloc::Function { instance }) => obj(vec![("fnptr", s(tcx.def_path_str(instance.def_id())))]),
            _ => obj(vec![("alloc", J::Null)]),
        }
    }

    fn fn_ref(&self, owner: DefId, def: DefId, args: ty::GenericArgsRef<'tcx>) -> J {
        let tcx = self.tcx;
        let mut v = vec![
            ("path", s(tcx.def_path_str(def))),
            ("full", s(tcx.def_path_str_with_args(def, args))),
            ("args", J::Arr(args.iter().map(|a| s(format!("{}", a))).collect())),
            ("local", J::Bool(def.is_local())),
        ];
        // trait method?
        if let Some(tr) = tcx.trait_of_assoc(def) {
            v.push(("trait", s(tcx.def_path_str(tr))));
            v.push(("method", s(tcx.item_name(def).as_str())));
        }
        let env = ty::TypingEnv::post_analysis(tcx, owner);
        let resolved = std::panic::catch_unwind(std::panic::AssertUnwindSafe(|| {
            ty::Instance::try_resolve(tcx, env, def, args)
        }));
        match resolved {
            Ok(Ok(Some(inst))) => {
                let rd = inst.def_id();
                let kind = match inst.def {
                    ty::InstanceKind::Item(_) => "item",
                    ty::InstanceKind::Virtual(..) => "virtual",
                    ty::InstanceKind::Intrinsic(_) => "intrinsic",
                    ty::InstanceKind::ClosureOnceShim { .. } => "closure_once_shim",
                    ty::InstanceKind::FnPtrShim(..) => "fnptr_shim",
                    ty::InstanceKind::DropGlue(..) => "drop_glue",
                    ty::InstanceKind::CloneShim(..) => "clone_shim",
                    ty::InstanceKind::ReifyShim(..) => "reify_shim",
                    ty::InstanceKind::VTableShim(..) => "vtable_shim",
                    _ => "other",
                };
                let mut r = vec![
                    ("path", s(tcx.def_path_str(rd))),
                    ("full", s(tcx.def_path_str_with_args(rd, inst.args))),
                    ("kind", s(kind)),
                    ("local", J::Bool(rd.is_local())),
                ];
                if let Some(imp) = tcx.impl_of_assoc(rd) {
                    let self_ty = tcx.type_of(imp).instantiate_identity().skip_norm_wip();
                    r.push(("impl_self", s(format!("{}", self_ty))));
                }
                v.push(("resolved", obj(r)));
            }
            _ => v.push(("resolved", J::Null)),
        }
        obj(v)
    }

    fn rvalue(&self, owner: DefId, body: &Body<'tcx>, rv: &Rvalue<'tcx>) -> J {
        let tcx = self.tcx;
        match rv {
            Rvalue::Use(op, ..) => obj(vec![("k", s("use")), ("op", self.operand(owner, body, op))]),
            Rvalue::Repeat(op, c) => obj(vec![
                ("k", s("repeat")),
                ("op", self.operand(owner, body, op)),
                ("count", s(format!("{}", c))),
            ]),
            Rvalue::Ref(_, bk, p) => obj(vec![
                ("k", s("ref")),
                ("mut", J::Bool(matches!(bk, mir::BorrowKind::Mut { .. }))),
                ("place", self.place(body, p)),
            ]),
            Rvalue::RawPtr(_, p) => obj(vec![("k", s("rawptr")), ("place", self.place(body, p))]),
            Rvalue::ThreadLocalRef(d) => obj(vec![("k", s("tls")), ("path", s(tcx.def_path_str(*d)))]),
            Rvalue::Cast(kind, op, ty) => {
                let from = op.ty(&body.local_decls, tcx);
                obj(vec![
                    ("k", s("cast")),
                    ("kind", s(format!("{:?}", kind))),
                    ("op", self.operand(owner, body, op)),
                    ("from", s(format!("{}", from))),
                    ("to", s(format!("{}", ty))),
                ])
            }
            Rvalue::BinaryOp(op, box (a, b)) => obj(vec![
                ("k", s("binop")),
                ("op", s(format!("{:?}", op))),
                ("a", self.operand(owner, body, a)),
                ("b", self.operand(owner, body, b)),
            ]),
            Rvalue::UnaryOp(op, a) => obj(vec![
                ("k", s("unop")),
                ("op", s(format!("{:?}", op))),
                ("a", self.operand(owner, body, a)),
            ]),
            Rvalue::Discriminant(p) => {
                let pty = p.ty(&body.local_decls, tcx).ty;
                let mut vars = Vec::new();
                if let ty::Adt(def, _) = pty.kind() {
                    if def.is_enum() {
                        for (vidx, d) in def.discriminants(tcx) {
                            vars.push(J::Arr(vec![J::Num(d.val.to_string()), s(def.variant(vidx).name.as_str())]));
                        }
                    }
                }
                obj(vec![("k", s("discr")), ("place", self.place(body, p)), ("variants", J::Arr(vars))])
            }
            Rvalue::Aggregate(box kind, ops) => {
                let mut v = vec![("k", s("aggr"))];
                let mut names: Vec<J> = Vec::new();
                match kind {
                    AggregateKind::Array(t) => {
                        v.push(("akind", s("array")));
                        v.push(("elem_ty", s(format!("{}", t))));
                    }
                    AggregateKind::Tuple => v.push(("akind", s("tuple"))),
                    AggregateKind::Adt(did, vidx, gargs, _, _) => {
                        v.push(("akind", s("adt")));
                        v.push(("adt", s(tcx.def_path_str(*did))));
                        v.push(("adt_full", s(tcx.def_path_str_with_args(*did, gargs))));
                        let adt = tcx.adt_def(*did);
                        let var = adt.variant(*vidx);
                        v.push(("variant", s(var.name.as_str())));
                        for f in var.fields.iter() {
                            names.push(s(f.name.as_str()));
                        }
                    }
                    AggregateKind::Closure(did, _) => {
                        v.push(("akind", s("closure")));
                        v.push(("closure", s(tcx.def_path_str(*did))));
                    }
                    AggregateKind::RawPtr(..) => v.push(("akind", s("rawptr"))),
                    _ => v.push(("akind", s("other"))),
                }
                v.push(("fields", J::Arr(names)));
                v.push(("ops", J::Arr(ops.iter().map(|o| self.operand(owner, body, o)).collect())));
                obj(v)
            }
            Rvalue::CopyForDeref(p) => obj(vec![("k", s("use")), ("op", obj(vec![("k", s("copy")), ("place", self.place(body, p))]))]),
            other => obj(vec![("k", s("other")), ("dbg", s(format!("{:?}", other)))]),
        }
    }

    fn block(&self, owner: DefId, body: &Body<'tcx>, data: &BasicBlockData<'tcx>) -> J {
        let mut stmts = Vec::new();
        for st in data.statements.iter() {
            match &st.kind {
                StatementKind::Assign(box (p, rv)) => {
                    stmts.push(obj(vec![
                        ("k", s("assign")),
                        ("place", self.place(body, p)),
                        ("rv", self.rvalue(owner, body, rv)),
                        ("span", self.span(st.source_info.span)),
                    ]));
                }
                StatementKind::SetDiscriminant { place, variant_index } => {
                    stmts.push(obj(vec![
                        ("k", s("setdiscr")),
                        ("place", self.place(body, place)),
                        ("variant", n(variant_index.index() as i128)),
                    ]));
                }
                StatementKind::Intrinsic(i) => {
                    stmts.push(obj(vec![("k", s("intrinsic")), ("dbg", s(format!("{:?}", i)))]));
                }
                _ => {}
            }
        }
        let term = data.terminator();
        let sp = term.source_info.span;
        let mut t: Vec<(&str, J)> = Vec::new();
        match &term.kind {
            TerminatorKind::Goto { target } => {
                t.push(("k", s("goto")));
                t.push(("target", n(target.index() as i128)));
            }
            TerminatorKind::SwitchInt { discr, targets } => {
                t.push(("k", s("switch")));
                t.push(("discr", self.operand(owner, body, discr)));
                let mut arms = Vec::new();
                for (val, bb) in targets.iter() {
                    arms.push(J::Arr(vec![J::Num(val.to_string()), n(bb.index() as i128)]));
                }
                t.push(("arms", J::Arr(arms)));
                t.push(("otherwise", n(targets.otherwise().index() as i128)));
                let dty = discr.ty(&body.local_decls, self.tcx);
                t.push(("discr_ty", s(format!("{}", dty))));
            }
            TerminatorKind::Return => t.push(("k", s("return"))),
            TerminatorKind::Unreachable => t.push(("k", s("unreachable"))),
            TerminatorKind::UnwindResume => t.push(("k", s("resume"))),
            TerminatorKind::UnwindTerminate(_) => t.push(("k", s("terminate"))),
            TerminatorKind::Drop { place, target, unwind, .. } => {
                t.push(("k", s("drop")));
                t.push(("place", self.place(body, place)));
                t.push(("target", n(target.index() as i128)));
                if let mir::UnwindAction::Cleanup(bb) = unwind {
                    t.push(("cleanup", n(bb.index() as i128)));
                }
            }
            TerminatorKind::Call { func, args, destination, target, unwind, .. } => {
                t.push(("k", s("call")));
                t.push(("func", self.operand(owner, body, func)));
                t.push(("args", J::Arr(args.iter().map(|a| self.operand(owner, body, &a.node)).collect())));
                t.push(("dest", self.place(body, destination)));
                t.push(("target", match target { Some(b) => n(b.index() as i128), None => J::Null }));
                if let mir::UnwindAction::Cleanup(bb) = unwind {
                    t.push(("cleanup", n(bb.index() as i128)));
                }
                t.push(("snippet", self.snippet(sp)));
            }
            TerminatorKind::Assert { cond, expected, msg, target, unwind } => {
                t.push(("k", s("assert")));
                t.push(("cond", self.operand(owner, body, cond)));
                t.push(("expected", J::Bool(*expected)));
                let (kind, ops): (String, Vec<J>) = match &**msg {
                    mir::AssertKind::BoundsCheck { len, index } => (
                        "BoundsCheck".into(),
                        vec![self.operand(owner, body, len), self.operand(owner, body, index)],
                    ),
                    mir::AssertKind::Overflow(op, a, b) => (
                        format!("Overflow({:?})", op),
                        vec![self.operand(owner, body, a), self.operand(owner, body, b)],
                    ),
                    mir::AssertKind::OverflowNeg(a) => ("OverflowNeg".into(), vec![self.operand(owner, body, a)]),
                    mir::AssertKind::DivisionByZero(a) => ("DivisionByZero".into(), vec![self.operand(owner, body, a)]),
                    mir::AssertKind::RemainderByZero(a) => ("RemainderByZero".into(), vec![self.operand(owner, body, a)]),
                    other => (format!("{:?}", other), vec![]),
                };
                t.push(("akind", s(kind)));
                t.push(("ops", J::Arr(ops)));
                t.push(("target", n(target.index() as i128)));
                if let mir::UnwindAction::Cleanup(bb) = unwind {
                    t.push(("cleanup", n(bb.index() as i128)));
                }
                t.push(("snippet", self.snippet(sp)));
            }
            TerminatorKind::FalseEdge { real_target, .. } => {
                t.push(("k", s("goto")));
                t.push(("target", n(real_target.index() as i128)));
            }
            TerminatorKind::FalseUnwind { real_target, .. } => {
                t.push(("k", s("goto")));
                t.push(("target", n(real_target.index() as i128)));
            }
            other => {
                t.push(("k", s("other")));
                t.push(("dbg", s(format!("{:?}", other))));
            }
        }
        t.push(("span", self.span(sp)));
        let mut v = vec![("stmts", J::Arr(stmts)), ("term", obj(t))];
        if data.is_cleanup {
            v.push(("cleanup", J::Bool(true)));
        }
        obj(v)
    }
}
