#!/bin/sh
# Build the fact extractor and prime the dependency cache (offline).
set -e
cd "$(dirname "$0")"
export CARGO_NET_OFFLINE=true
(cd driver && cargo +nightly build --release --offline)
python3 - <<'PY'
import sys
sys.path.insert(0, 'analysis')
import facts
for prof in ('dev', 'release'):
    f = facts.extract(prof)
    print('primed', prof, f['meta']['body_count'], 'bodies')
PY
