"""Loading and pretty-printing of the MIR facts produced by driver/ (E1)."""
import json
import os
import subprocess
import sys
import time
import uuid
import hashlib

VERIF = os.path.dirname(os.path.dirname(os.path.abspath(__file__)))
REPO = os.environ.get("RBP_REPO", "/repo")
WORK = os.path.join(VERIF, ".work")
DRIVER = os.path.join(VERIF, "driver", "target", "release", "rbp-facts")
SCHEMA = 3


class FactsError(Exception):
    pass


def _sysroot():
    return subprocess.check_output(["rustc", "+nightly", "--print", "sysroot"], text=True).strip()


def build_driver():
    if os.path.exists(DRIVER):
        src_m = max(os.path.getmtime(os.path.join(VERIF, "driver", "src", f))
                    for f in os.listdir(os.path.join(VERIF, "driver", "src")))
        if os.path.getmtime(DRIVER) >= src_m:
            return
    env = dict(os.environ, CARGO_NET_OFFLINE="true")
    r = subprocess.run(["cargo", "+nightly", "build", "--release", "--offline"],
                       cwd=os.path.join(VERIF, "driver"), env=env,
                       stdout=subprocess.PIPE, stderr=subprocess.STDOUT, text=True)
    if r.returncode != 0 or not os.path.exists(DRIVER):
        raise FactsError("cannot build fact extractor:\n" + r.stdout[-4000:])


def extract(profile="dev", repo=None, target_dir=None):
    """Run the extractor over `repo`'s current working tree; returns the facts dict.

    Fails closed: raises FactsError if the crate does not compile, the driver did not run
    (stale cargo cache), or the nonce/schema do not match."""
    repo = repo or REPO
    build_driver()
    os.makedirs(WORK, exist_ok=True)
    tdir = target_dir or os.environ.get("RBP_TARGET_DIR") or os.path.join(WORK, "target")
    nonce = uuid.uuid4().hex
    out = os.path.join(WORK, "facts-%s-%s.json" % (profile, nonce[:12]))
    prof_dir = "release" if profile == "release" else "debug"
    env = dict(os.environ)
    env.update({
        "LD_LIBRARY_PATH": _sysroot() + "/lib",
        "RUSTFLAGS": "-Zmir-opt-level=0 -Awarnings",
        "RUSTC_WORKSPACE_WRAPPER": DRIVER,
        "CARGO_TARGET_DIR": tdir,
        "CARGO_NET_OFFLINE": "true",
        "RBP_NONCE": nonce,
        "RBP_FACTS_OUT": out,
    })
    env.pop("RUSTC_WRAPPER", None)
    cmd = ["cargo", "+nightly", "check", "--offline", "--locked"]
    if profile == "release":
        cmd.append("--release")
    # cargo's freshness cache would skip the wrapper: drop the member's fingerprints
    import fcntl
    lock = open(os.path.join(WORK, "extract-%s.lock" % os.path.basename(tdir)), "w")
    fcntl.flock(lock, fcntl.LOCK_EX)
    try:
        fp = os.path.join(tdir, prof_dir, ".fingerprint")
        if os.path.isdir(fp):
            for d in os.listdir(fp):
                if d.startswith("rusty-blockparser-"):
                    subprocess.run(["rm", "-rf", os.path.join(fp, d)])
        r = subprocess.run(cmd, cwd=repo, env=env, stdout=subprocess.PIPE,
                           stderr=subprocess.STDOUT, text=True)
    finally:
        fcntl.flock(lock, fcntl.LOCK_UN)
        lock.close()
    if r.returncode != 0:
        raise FactsError("cargo check failed on %s:\n%s" % (repo, r.stdout[-6000:]))
    if not os.path.exists(out):
        raise FactsError("fact extractor did not run (no output file); cargo said:\n" + r.stdout[-2000:])
    with open(out) as f:
        facts = json.load(f)
    os.unlink(out)
    if facts["meta"]["nonce"] != nonce:
        raise FactsError("stale facts (nonce mismatch)")
    if facts["meta"]["schema"] != SCHEMA:
        raise FactsError("facts schema %s != %s" % (facts["meta"]["schema"], SCHEMA))
    facts["meta"]["profile"] = profile
    facts["meta"]["repo"] = repo
    return facts


def lock_digest(repo=None):
    repo = repo or REPO
    with open(os.path.join(repo, "Cargo.lock"), "rb") as f:
        return hashlib.sha256(f.read()).hexdigest()


# ------------------------------------------------------------------------------------------
# pretty printing (for development and for violation reports)

def fmt_place(p):
    s = "_%d" % p["l"]
    for e in p["p"]:
        k = e["k"]
        if k == "deref":
            s = "(*%s)" % s
        elif k == "field":
            s = "%s.%s" % (s, e["name"])
        elif k == "index":
            s = "%s[_%d]" % (s, e["local"])
        elif k == "cindex":
            s = "%s[%s%d]" % (s, "-" if e["from_end"] else "", e["offset"])
        elif k == "subslice":
            s = "%s[%d..%s%d]" % (s, e["from"], "-" if e["from_end"] else "", e["to"])
        elif k == "downcast":
            s = "(%s as %s)" % (s, e["variant"])
        else:
            s = "%s.<%s>" % (s, k)
    return s


def fmt_const(c):
    if "fn" in c:
        f = c["fn"]
        r = f.get("resolved")
        if r and r["path"] != f["path"]:
            return "fn %s => %s" % (f["full"], r["full"])
        return "fn %s" % f["full"]
    v = c.get("val")
    name = c.get("named")
    if v is None:
        return "const %s" % (name or c["ty"])
    if "int" in v:
        t = "%s_%s" % (v["int"], c["ty"])
    elif "bool" in v:
        t = str(v["bool"]).lower()
    elif "str" in v:
        t = json.dumps(v["str"])
    elif "bytes" in v:
        t = "b" + repr(bytes(v["bytes"]))
    elif "zst" in v:
        t = "<%s>" % c["ty"]
    elif "float" in v:
        t = v["float"] + "_" + c["ty"]
    elif "alloc_bytes" in v:
        t = "alloc" + repr(bytes(v["alloc_bytes"]))[1:]
    else:
        t = json.dumps(v)
    if name:
        t = "%s(=%s)" % (name, t)
    return "const " + t


def fmt_op(o):
    k = o["k"]
    if k in ("copy", "move"):
        return ("move " if k == "move" else "") + fmt_place(o["place"])
    if k == "const":
        return fmt_const(o)
    return "<%s>" % o.get("dbg", k)


def fmt_rv(rv):
    k = rv["k"]
    if k == "use":
        return fmt_op(rv["op"])
    if k == "ref":
        return "&%s%s" % ("mut " if rv["mut"] else "", fmt_place(rv["place"]))
    if k == "rawptr":
        return "&raw %s" % fmt_place(rv["place"])
    if k == "cast":
        return "%s as %s (%s)" % (fmt_op(rv["op"]), rv["to"], rv["kind"])
    if k == "binop":
        return "%s(%s, %s)" % (rv["op"], fmt_op(rv["a"]), fmt_op(rv["b"]))
    if k == "unop":
        return "%s(%s)" % (rv["op"], fmt_op(rv["a"]))
    if k == "discr":
        return "discriminant(%s)" % fmt_place(rv["place"])
    if k == "aggr":
        ak = rv["akind"]
        ops = [fmt_op(o) for o in rv["ops"]]
        if ak == "adt":
            names = rv["fields"]
            body = ", ".join("%s: %s" % (n, o) for n, o in zip(names, ops))
            return "%s::%s { %s }" % (rv["adt"], rv["variant"], body)
        if ak == "closure":
            return "closure %s [%s]" % (rv["closure"], ", ".join(ops))
        if ak == "array":
            return "[%s]" % ", ".join(ops)
        return "(%s)" % ", ".join(ops)
    if k == "repeat":
        return "[%s; %s]" % (fmt_op(rv["op"]), rv["count"])
    return "<%s>" % rv.get("dbg", k)


def fmt_term(t):
    k = t["k"]
    if k == "goto":
        return "goto -> bb%d" % t["target"]
    if k == "switch":
        arms = ", ".join("%s: bb%d" % (a[0], a[1]) for a in t["arms"])
        return "switchInt(%s) -> [%s, otherwise: bb%d]" % (fmt_op(t["discr"]), arms, t["otherwise"])
    if k == "call":
        tgt = "bb%d" % t["target"] if t["target"] is not None else "!"
        return "%s = %s(%s) -> %s" % (fmt_place(t["dest"]), fmt_op(t["func"]),
                                       ", ".join(fmt_op(a) for a in t["args"]), tgt)
    if k == "assert":
        return "assert(%s%s, %s [%s]) -> bb%d" % ("" if t["expected"] else "!", fmt_op(t["cond"]), t["akind"],
                                                  ", ".join(fmt_op(o) for o in t["ops"]), t["target"])
    if k == "drop":
        return "drop(%s) -> bb%d" % (fmt_place(t["place"]), t["target"])
    return k


def dump_body(b, out=sys.stdout, cleanup=False):
    w = out.write
    w("fn %s  [%s:%d-%d]\n" % (b["path"], b["span"]["file"], b.get("line_lo", 0), b.get("line_hi", 0)))
    names = {}
    for d in b["debug"]:
        if d["val"].get("l") is not None and not d["val"].get("p"):
            names[d["val"]["l"]] = d["name"]
    for i, l in enumerate(b["locals"]):
        nm = names.get(i)
        w("  let _%d: %s%s\n" % (i, l["ty"], ("  // " + nm) if nm else ""))
    for d in b["debug"]:
        if "l" in d["val"] and d["val"]["p"]:
            w("  debug %s => %s\n" % (d["name"], fmt_place(d["val"])))
    for i, blk in enumerate(b["blocks"]):
        if blk.get("cleanup") and not cleanup:
            continue
        w("  bb%d%s:\n" % (i, " (cleanup)" if blk.get("cleanup") else ""))
        for s in blk["stmts"]:
            if s["k"] == "assign":
                w("    %s = %s   // L%d\n" % (fmt_place(s["place"]), fmt_rv(s["rv"]), s["span"]["line"]))
            else:
                w("    <%s>\n" % s["k"])
        t = blk["term"]
        w("    %s   // L%d%s\n" % (fmt_term(t), t["span"]["line"],
                                  (" " + ",".join(t["span"].get("macros", []))) if t["span"].get("exp") else ""))


if __name__ == "__main__":
    import argparse
    ap = argparse.ArgumentParser()
    ap.add_argument("pattern", nargs="?")
    ap.add_argument("--profile", default="dev")
    ap.add_argument("--list", action="store_true")
    ap.add_argument("--cleanup", action="store_true")
    ap.add_argument("--promoted", action="store_true")
    a = ap.parse_args()
    t0 = time.time()
    f = extract(a.profile)
    sys.stderr.write("extracted in %.1fs: %s\n" % (time.time() - t0, f["meta"]))
    for b in f["bodies"]:
        if a.list:
            print(b["kind"], b["path"], b["span"]["file"], b["line_lo"], b["line_hi"])
        elif a.pattern and a.pattern in b["path"]:
            dump_body(b, cleanup=a.cleanup)
            if a.promoted:
                for i, p in enumerate(b["promoted"]):
                    pb = dict(p, path=b["path"] + "::promoted[%d]" % i, span=b["span"])
                    dump_body(pb)
            print()
