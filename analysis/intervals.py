"""Upper-bound (interval) abstract interpretation directly over MIR statements.

State: var -> upper bound (python int, exact). Vars:
   ('l', n)            integer local _n
   ('t', n, f)         field f of tuple/aggregate local _n  (e.g. (_5.0) of a checked-add pair)
   ('p', n)            payload of an enum local _n (Ok/Some/Continue .0) when known
   ('m', path)         memory place rooted at a parameter, canonical path string (e.g. 'self.ip')
Absent var = type maximum. Lower bounds are 0 (only unsigned quantities matter here).
Loops: plain fixpoint iteration with a widening-to-type-maximum after a few rounds; loop guards are
re-applied at every loop-body entry through edge refinement, so cursors bounded by a guard stay bounded."""
import re

import mir
from mir import canon, peel

ISIZE_MAX = (1 << 63) - 1
TYPEMAX = {'u8': 255, 'u16': 65535, 'u32': (1 << 32) - 1, 'u64': (1 << 64) - 1, 'usize': (1 << 64) - 1, 'u128': (1 << 128) - 1,
           'i8': 127, 'i16': 32767, 'i32': (1 << 31) - 1, 'i64': (1 << 63) - 1, 'isize': (1 << 63) - 1, 'i128': (1 << 127) - 1,
           'bool': 1, 'char': 0x10FFFF}
BITS = {'u8': 8, 'u16': 16, 'u32': 32, 'u64': 64, 'usize': 64, 'u128': 128, 'i8': 8, 'i16': 16, 'i32': 32, 'i64': 64, 'isize': 64, 'i128': 128}
HUGE = 1 << 200


def tmax(ty):
    ty = ty.strip()
    if ty.startswith('&'):
        ty = ty.lstrip('&').replace('mut ', '').strip()
    return TYPEMAX.get(ty, None)


class Summary:
    """callee summary: ret_payload_ub (upper bound of the Ok/Some payload or plain return), and
    per self-field additive effect: {'ip': 4} means self.ip grows by at most 4; None = unknown write"""

    def __init__(self, ret_ub=None, field_delta=None, writes_unknown=False):
        self.ret_ub = ret_ub
        self.field_delta = field_delta or {}
        self.writes_unknown = writes_unknown


class Intervals:
    def __init__(self, prog, body, param_ub=None, summaries=None, mem_invariants=None):
        self.prog = prog
        self.b = body
        self.param_ub = param_ub or {}
        self.summaries = summaries or {}
        # memory invariants: path -> ub that always holds (e.g. immutable field equal to a slice length)
        self.mem_inv = mem_invariants or {}
        self.state_in = {}
        self.assert_ub = {}   # bb -> (ubs of the assert operands, result ub)
        self.local_at = {}    # (bb) -> state snapshot before terminator
        self.binop_ub = {}    # (bb, stmt idx) -> (ub a, ub b)
        self.pins = {}        # var -> upper bound valid at every program point (sum accumulators)

    # --- helpers ---------------------------------------------------------------------------------
    def key_of_place(self, p):
        if not p['p']:
            return ('l', p['l'])
        pr = p['p']
        if len(pr) == 1 and pr[0]['k'] == 'field' and not any(e['k'] == 'deref' for e in pr):
            return ('t', p['l'], pr[0]['name'])
        if len(pr) == 2 and pr[0]['k'] == 'downcast' and pr[1]['k'] == 'field' and pr[1]['name'] == '0':
            return ('p', p['l'])
        e = self.b.place_expr(p)
        root, ch = mir.field_chain(e)
        if root[0] == 'param' and ch and '[]' not in ch:
            return ('m', canon(e))
        return None

    def ub_place(self, p, st):
        k = self.key_of_place(p)
        ty = p['ty']
        d = tmax(ty)
        v0 = self.local_payload_field_ub(p, st)
        if v0 is not None:
            return v0 if d is None else min(v0, d)
        if k is not None and k in st:
            v = st[k]
            return v if d is None else min(v, d)
        if k is not None and k[0] == 'm' and k[1] in self.mem_inv:
            return self.mem_inv[k[1]]
        if k is not None and k[0] == 'l' and 1 <= k[1] <= self.b.arg_count and k[1] in self.param_ub:
            return self.param_ub[k[1]]
        return d if d is not None else HUGE

    def ub_op(self, o, st):
        if o['k'] in ('copy', 'move'):
            return self.ub_place(o['place'], st)
        if o['k'] == 'const':
            v = o.get('val')
            if isinstance(v, dict) and 'int' in v:
                return abs(int(v['int']))
            if isinstance(v, dict) and 'bool' in v:
                return 1
            d = tmax(o['ty'])
            return d if d is not None else HUGE
        return HUGE

    def ub_rvalue(self, rv, st, dest_ty):
        k = rv['k']
        d = tmax(dest_ty)
        cap = d if d is not None else HUGE
        if k == 'use':
            return min(self.ub_op(rv['op'], st), cap)
        if k == 'cast':
            return min(self.ub_op(rv['op'], st), tmax(rv['to']) if tmax(rv['to']) is not None else HUGE)
        if k == 'binop':
            a, b = self.ub_op(rv['a'], st), self.ub_op(rv['b'], st)
            op = rv['op'].replace('WithOverflow', '').replace('Unchecked', '')
            if op == 'Add':
                return a + b
            if op == 'Sub':
                return a
            if op == 'Mul':
                return a * b
            if op == 'Shl':
                return a << min(b, 256) if a < HUGE else HUGE
            if op in ('Shr', 'Div'):
                return a
            if op == 'Rem':
                return min(a, max(b - 1, 0))
            if op == 'BitAnd':
                return min(a, b)
            if op in ('BitOr', 'BitXor'):
                m = max(a, b)
                return (1 << m.bit_length()) - 1
            if op in ('Lt', 'Le', 'Gt', 'Ge', 'Eq', 'Ne'):
                return 1
            return cap
        if k == 'unop':
            if rv['op'] == 'PtrMetadata':
                return ISIZE_MAX
            if rv['op'] == 'Not':
                return cap
            return cap
        if k == 'discr':
            return 255
        return cap

    # --- transfer -----------------------------------------------------------------------------------
    def transfer_block(self, bb, st, record=False):
        st = dict(st)
        blk = self.b.blocks[bb]
        for k0, v0 in self.pins.items():
            st[k0] = min(st.get(k0, HUGE), v0)
        for si, s in enumerate(blk['stmts']):
            if s['k'] != 'assign':
                continue
            p = s['place']
            rv = s['rv']
            key = self.key_of_place(p)
            if record and rv['k'] == 'binop':
                self.binop_ub[(bb, si)] = (self.ub_op(rv['a'], st), self.ub_op(rv['b'], st))
            if rv['k'] == 'binop' and rv['op'].endswith('WithOverflow') and not p['p']:
                val = self.ub_rvalue(rv, st, 'u128')
                st[('t', p['l'], '0')] = val
                st[('t', p['l'], '1')] = 1
                continue
            if rv['k'] == 'aggr' and not p['p']:
                # record fields of small aggregates (tuples, Ok(x))
                for i, o in enumerate(rv['ops']):
                    nm = rv['fields'][i] if rv['akind'] == 'adt' and i < len(rv['fields']) else str(i)
                    st[('t', p['l'], nm)] = self.ub_op(o, st)
                if rv['akind'] == 'adt' and rv.get('variant') in ('Ok', 'Some', 'Continue') and rv['ops']:
                    st[('p', p['l'])] = self.ub_op(rv['ops'][0], st)
                continue
            if rv['k'] == 'use' and rv['op']['k'] in ('copy', 'move') and not p['p']:
                sp = rv['op']['place']
                # x = (n as Some).0 where n is the tuple item of an enumerate(): carry the per-field bounds to x
                if len(sp['p']) == 2 and sp['p'][0]['k'] == 'downcast' and sp['p'][1]['k'] == 'field' and sp['p'][1]['name'] == '0' and ('pt', sp['l']) in st:
                    for i, v in enumerate(st[('pt', sp['l'])]):
                        if v is not None:
                            st[('t', p['l'], str(i))] = v
            if rv['k'] == 'use' and rv['op']['k'] in ('copy', 'move') and not p['p'] and not rv['op']['place']['p']:
                # moving an enum/aggregate local: carry payload/field info along
                src = rv['op']['place']['l']
                for kk in list(st):
                    if kk[0] in ('p', 't') and kk[1] == src:
                        st[(kk[0], p['l']) + tuple(kk[2:])] = st[kk]
            if key is None:
                continue
            val = self.ub_rvalue(rv, st, p['ty'])
            st[key] = val
        t = blk['term']
        if record:
            self.local_at[bb] = dict(st)
        if t['k'] == 'assert' and record:
            ops = [self.ub_op(o, st) for o in t['ops']]
            self.assert_ub[bb] = ops
        if t['k'] == 'call':
            self.transfer_call(bb, t, st)
        return st

    def transfer_call(self, bb, t, st):
        cs = self.b.call_at[bb]
        dest = t['dest']
        dkey = self.key_of_place(dest)
        m = mir.method_name(cs.name)
        summ = None
        for tg in self.prog.targets(cs):
            summ = self.summaries.get(tg.path)
        # memory effects
        for a in t['args']:
            if a['k'] in ('copy', 'move') and (a['place']['ty'].startswith('&mut') or a['place']['ty'].startswith('*mut')):
                e = self.b.op_expr(a)
                root, ch = mir.field_chain(e)
                if root[0] == 'param':
                    prefix = canon(e)
                    for kk in list(st):
                        if kk[0] == 'm' and (kk[1] == prefix or kk[1].startswith(prefix + '.')):
                            fld = kk[1][len(prefix) + 1:] if kk[1] != prefix else ''
                            if summ is not None and not summ.writes_unknown:
                                if fld in summ.field_delta:
                                    st[kk] = st[kk] + summ.field_delta[fld]
                                # untouched field: unchanged
                            else:
                                del st[kk]
        # result
        ub = None
        if summ is not None and summ.ret_ub is not None:
            ub = summ.ret_ub
        elif m == 'len' and re.search(r'slice|Vec|str|String|\[', cs.name):
            ub = ISIZE_MAX
        elif m == 'branch' and 'Try' in cs.name and t['args']:
            a = t['args'][0]
            if a['k'] in ('copy', 'move') and not a['place']['p']:
                pk = ('p', a['place']['l'])
                if pk in st and not dest['p']:
                    st[('p', dest['l'])] = st[pk]
        elif m == 'next' and cs.trait and cs.trait.endswith('Iterator'):
            ub_item = self.iter_item_ub(cs, st)
            if ub_item is not None and not dest['p']:
                if isinstance(ub_item, tuple):
                    # tuple item (enumerate): remember per-field bounds on the payload local
                    st[('pt', dest['l'])] = ub_item
                else:
                    st[('p', dest['l'])] = ub_item
        if not dest['p']:
            if summ is not None and summ.ret_ub is not None:
                st[('p', dest['l'])] = summ.ret_ub
            if ub is not None:
                st[('l', dest['l'])] = ub
            else:
                st.pop(('l', dest['l']), None)

    def expr_ub(self, e, st):
        """upper bound of an expression tree using current memory/param bounds; None if unknown"""
        e = peel(e, calls=False)
        k = e[0]
        if k == 'int':
            return e[1]
        if k == 'param':
            return self.param_ub.get(e[2])
        if k == 'cast':
            v = self.expr_ub(e[2], st)
            t2 = tmax(e[3])
            if v is None:
                return t2
            return min(v, t2) if t2 is not None else v
        if k == 'call':
            m = mir.method_name(e[1])
            if m == 'len':
                return ISIZE_MAX
            s = self.summaries.get(e[1])
            if s is not None:
                return s.ret_ub
            return None
        if k == 'try':
            return self.expr_ub(e[1], st)
        if k == 'field':
            root, ch = mir.field_chain(e)
            if root[0] == 'param':
                c = canon(e)
                if ('m', c) in st:
                    return st[('m', c)]
                return self.mem_inv.get(c)
            return None
        if k == 'bin' and e[1] == 'Add':
            a, b = self.expr_ub(e[2], st), self.expr_ub(e[3], st)
            return a + b if a is not None and b is not None else None
        return None

    def iter_item_ub(self, cs, st):
        it = peel(self.b.op_expr(cs.args[0]))
        # Range{start,end}
        if it[0] == 'aggr' and it[2].endswith('ops::Range::Range'):
            end = dict(it[3])['end']
            u = self.expr_ub(end, st)
            return u - 1 if u is not None and u > 0 else u
        # take(enumerate(iter), n): item = (idx, &T)
        if it[0] == 'call' and mir.method_name(it[1]) == 'take':
            n = self.expr_ub(it[2][1], st)
            inner = peel(it[2][0], calls=False)
            while inner[0] == 'call' and mir.is_transparent_call(inner[1]):
                inner = peel(inner[2][0], calls=False)
            if inner[0] == 'call' and mir.method_name(inner[1]) == 'enumerate':
                return ((n - 1) if n else n, None)
        if it[0] == 'call' and mir.method_name(it[1]) == 'enumerate':
            # enumerate over the first n elements of a slice (`x[..n]`, the payload of `x.get(..n)`): indices < n
            inner = peel(it[2][0], calls=False) if it[2] else ('unknown',)
            while inner[0] == 'call' and mir.is_transparent_call(inner[1]) and inner[2]:
                inner = peel(inner[2][0], calls=False)
            if inner[0] == 'call' and mir.method_name(inner[1]) == 'index' and len(inner[2]) == 2:
                rng = peel(inner[2][1], calls=False)
                if rng[0] == 'aggr' and rng[2].endswith('RangeTo::RangeTo'):
                    n = self.expr_ub(dict(rng[3]).get('end'), st)
                    if n is not None:
                        return ((n - 1) if n else n, None)
            return (ISIZE_MAX, None)
        return None

    # --- edges ---------------------------------------------------------------------------------------
    def refine_edge(self, src, dst, st):
        st = dict(st)
        for f in self.b.edge_facts().get((src, dst), []):
            if f[0] != 'cond':
                if f[0] in ('eq',) and f[2]:
                    pass
                continue
            import util
            r = util.norm_rel(f[1], f[2])
            if r[0] not in ('lt', 'le'):
                continue
            a, bnd = r[1], r[2]
            ub_b = self.expr_ub(bnd, st)
            if ub_b is None:
                continue
            new = ub_b - 1 if r[0] == 'lt' else ub_b
            root, ch = mir.field_chain(a)
            if root[0] == 'param' and ch and a[0] == 'field':
                key = ('m', canon(a))
                st[key] = min(st.get(key, HUGE), new)
            elif a[0] == 'bin' and a[1] == 'Add':
                # (x + c) <= B  =>  x <= B - c
                base, k2, sat = util.affine(a)
                if base is not None and k2 >= 0:
                    r2, c2 = mir.field_chain(base)
                    if r2[0] == 'param' and c2 and base[0] == 'field':
                        key = ('m', canon(base))
                        st[key] = min(st.get(key, HUGE), new - k2)
        return st

    def run(self, entry=None):
        b = self.b
        nodes = sorted(b.reachable())
        st_in = {n: None for n in nodes}
        st_in[0] = dict(entry or {})
        rounds = {n: 0 for n in nodes}
        work = [0]
        import util
        order = util.rpo(b)
        changed = True
        it = 0
        while changed and it < 60:
            changed = False
            it += 1
            for n in order:
                if st_in.get(n) is None:
                    continue
                out = self.transfer_block(n, st_in[n])
                for s2 in b.succ[n]:
                    o2 = self.refine_edge(n, s2, out)
                    cur = st_in[s2]
                    if cur is None:
                        st_in[s2] = o2
                        changed = True
                    else:
                        # join: keep keys present in both with max
                        new = {}
                        for k in cur:
                            if k in o2:
                                v = max(cur[k], o2[k]) if not isinstance(cur[k], tuple) else cur[k]
                                new[k] = v
                        if new != cur:
                            rounds[s2] += 1
                            if rounds[s2] > 8:
                                # widening: drop the keys that keep growing
                                new = {k: v for k, v in new.items() if cur.get(k) == v}
                            st_in[s2] = new
                            changed = True
        self.state_in = st_in
        for n in nodes:
            if st_in.get(n) is not None:
                self.transfer_block(n, st_in[n], record=True)
        if not self.pins and not getattr(self, '_second', False):
            pins = self.sum_accumulator_pins()
            if pins:
                self._second = True
                self.pins = pins
                self.assert_ub, self.local_at, self.binop_ub = {}, {}, {}
                return self.run(entry)
        return self

    def sum_accumulator_pins(self):
        """locals L with defs {0 outside a loop, L + X once per iteration}: L <= trip * ub(X)"""
        b = self.b
        pins = {}
        for l, ds in b.defs().items():
            if len(ds) != 2 or any(d[0] != 'assign' for d in ds):
                continue
            zero = [d for d in ds if d[3]['k'] == 'use' and d[3]['op']['k'] == 'const' and isinstance(d[3]['op'].get('val'), dict) and d[3]['op']['val'].get('int') in (0, '0')]
            step = [d for d in ds if d not in zero]
            if len(zero) != 1 or len(step) != 1:
                continue
            sd = step[0]
            rv = sd[3]
            # look through whole-local copies (a fold's accumulator is handed to the step closure and back)
            for _ in range(6):
                if rv['k'] == 'use' and rv['op']['k'] in ('copy', 'move') and not rv['op']['place']['p']:
                    ds2 = b.defs().get(rv['op']['place']['l'], [])
                    if len(ds2) == 1 and ds2[0][0] == 'assign':
                        sd = ds2[0]
                        rv = sd[3]
                        continue
                break
            if not (rv['k'] == 'use' and rv['op']['k'] in ('copy', 'move') and len(rv['op']['place']['p']) == 1 and rv['op']['place']['p'][0].get('name') == '0'):
                continue
            tl = rv['op']['place']['l']
            tds = b.defs().get(tl, [])
            if len(tds) != 1 or tds[0][0] != 'assign' or tds[0][3]['k'] != 'binop' or not tds[0][3]['op'].startswith('Add'):
                continue
            add = tds[0]
            a, x = add[3]['a'], add[3]['b']

            def copy_root(o):
                for _ in range(6):
                    if o['k'] in ('copy', 'move') and not o['place']['p'] and o['place']['l'] != l:
                        ds3 = b.defs().get(o['place']['l'], [])
                        if len(ds3) == 1 and ds3[0][0] == 'assign' and ds3[0][3]['k'] == 'use':
                            o = ds3[0][3]['op']
                            continue
                    break
                return o
            a = copy_root(a)
            if not (a['k'] in ('copy', 'move') and not a['place']['p'] and a['place']['l'] == l):
                continue
            lp = b.innermost_loop(sd[1])
            if lp is None or zero[0][1] in lp[1]:
                continue
            # trip count from the loop's iterator
            trip = None
            for bb in sorted(lp[1]):
                cs = b.call_at.get(bb)
                if cs and cs.method == 'next' and b.innermost_loop(bb) and b.innermost_loop(bb)[0] == lp[0]:
                    it = self.iter_item_ub(cs, self.local_at.get(bb, {}))
                    if isinstance(it, tuple) and it[0] is not None:
                        trip = it[0] + 1
                    elif isinstance(it, int):
                        trip = it + 1
            if trip is None:
                continue
            ubs = self.binop_ub.get((add[1], add[2]))
            if ubs is None:
                continue
            pins[('l', l)] = trip * ubs[1]
        return pins

    def local_payload_field_ub(self, place, st):
        """ub for projections like (_47 as Some).0.0 using recorded tuple-item bounds"""
        pr = place['p']
        if len(pr) == 3 and pr[0]['k'] == 'downcast' and pr[1]['k'] == 'field' and pr[2]['k'] == 'field':
            k = ('pt', place['l'])
            if k in st:
                idx = int(pr[2]['name']) if pr[2]['name'].isdigit() else None
                if idx is not None and idx < len(st[k]) and st[k][idx] is not None:
                    return st[k][idx]
        return None
