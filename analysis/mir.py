"""E2 core: CFG, dominators, symbolic provenance expressions, edge facts, call sites, format
templates and call-graph over the MIR facts produced by driver/ (E1).

Everything here is structural/static: no code of the analysed crate is executed."""
import re
import json
from collections import defaultdict, deque

from facts import fmt_place, fmt_op, fmt_term, fmt_rv

# ------------------------------------------------------------------------------------------
# expressions: nested tuples
#   ('int', v, ty) ('bool', v) ('str', s) ('bytes', b) ('unit',) ('const', ty, repr)
#   ('named', path, E) ('fn', path) ('param', body, idx) ('local', body, l)
#   ('field', E, name) ('deref', E) ('ref', E) ('idx', E, E) ('cidx', E, off, from_end)
#   ('subslice', E, from, to, from_end) ('variant', E, name) ('discr', E)
#   ('call', name, args, site) ('bin', op, a, b) ('un', op, a) ('cast', kind, e, to)
#   ('aggr', kind, name, ((field, E), ...)) ('phi', (E, ...)) ('cyc', l) ('unknown', text)
#   ('try', E)  -- success payload of `?` applied to E (Continue branch of Try::branch)


def is_int(e):
    return isinstance(e, tuple) and e and e[0] == 'int'


def walk(e):
    """yield all sub-expressions of e (pre-order)."""
    stack = [e]
    while stack:
        x = stack.pop()
        if not isinstance(x, tuple) or not x:
            continue
        if isinstance(x[0], str) and x[0] in _KINDS:
            yield x
            kids = x[1:]
        else:
            kids = x  # a container of expressions (call args, aggregate fields, phi members)
        for c in kids:
            if isinstance(c, tuple):
                stack.append(c)


def contains(e, pred):
    return any(pred(x) for x in walk(e))


def calls_in(e, name_pred=None):
    for x in walk(e):
        if x and x[0] == 'call' and (name_pred is None or name_pred(x[1])):
            yield x


def strip_sites(e):
    """structural copy without call-site ids (for comparing expressions across bodies)."""
    if not isinstance(e, tuple):
        return e
    if e and e[0] == 'call':
        return ('call', e[1], tuple(strip_sites(a) for a in e[2]))
    return tuple(strip_sites(c) for c in e)


def show(e, depth=0):
    if not isinstance(e, tuple) or not e:
        return repr(e)
    k = e[0]
    if depth > 12:
        return '…'
    d = depth + 1
    if k == 'int':
        return '%d' % e[1]
    if k == 'bool':
        return str(e[1]).lower()
    if k == 'str':
        return json.dumps(e[1])
    if k == 'bytes':
        return 'b' + repr(e[1])[1:] if isinstance(e[1], bytes) else repr(e[1])
    if k == 'unit':
        return '()'
    if k == 'const':
        return 'const<%s>' % e[1]
    if k == 'named':
        return '%s' % e[1].split('::')[-1]
    if k == 'fn':
        return 'fn:%s' % e[1]
    if k == 'param':
        return 'arg%d' % e[2] if len(e) < 4 or not e[3] else e[3]
    if k == 'local':
        return '_%d' % e[2]
    if k == 'field':
        return '%s.%s' % (show(e[1], d), e[2])
    if k == 'deref':
        return '*%s' % show(e[1], d)
    if k == 'ref':
        return '&%s' % show(e[1], d)
    if k == 'idx':
        return '%s[%s]' % (show(e[1], d), show(e[2], d))
    if k == 'cidx':
        return '%s[%s%d]' % (show(e[1], d), '-' if e[3] else '', e[2])
    if k == 'subslice':
        return '%s[%d..%s%d]' % (show(e[1], d), e[2], '-' if e[4] else '', e[3])
    if k == 'variant':
        return '(%s as %s)' % (show(e[1], d), e[2])
    if k == 'discr':
        return 'discr(%s)' % show(e[1], d)
    if k == 'call':
        return '%s(%s)' % (short(e[1]), ', '.join(show(a, d) for a in e[2]))
    if k == 'bin':
        return '%s(%s, %s)' % (e[1], show(e[2], d), show(e[3], d))
    if k == 'un':
        return '%s(%s)' % (e[1], show(e[2], d))
    if k == 'cast':
        return '(%s as %s)' % (show(e[2], d), e[3])
    if k == 'aggr':
        if e[1] in ('tuple', 'array'):
            return ('(%s)' if e[1] == 'tuple' else '[%s]') % ', '.join(show(v, d) for _, v in e[3])
        return '%s{%s}' % (short(e[2]), ', '.join('%s: %s' % (n, show(v, d)) for n, v in e[3]))
    if k == 'phi':
        return 'phi(%s)' % ' | '.join(show(x, d) for x in e[1])
    if k == 'cyc':
        return 'loopvar(_%d)' % e[1]
    if k == 'try':
        return '%s?' % show(e[1], d)
    if k == 'unknown':
        return '?<%s>' % e[1]
    return repr(e)


def short(path):
    """shorten a def path for display: keep last two segments."""
    p = re.sub(r'<[^<>]*>', '', path)
    p = re.sub(r'<[^<>]*>', '', p)
    segs = [s for s in p.replace('<', '').replace('>', '').split('::') if s]
    return '::'.join(segs[-2:]) if segs else path


# ------------------------------------------------------------------------------------------

class CallSite:
    __slots__ = ('body', 'bb', 'term', 'decl', 'name', 'full', 'rfull', 'kind', 'trait', 'method',
                 'gargs', 'local', 'args', 'dest', 'target', 'line', 'macros', 'snippet', 'fnptr',
                 'impl_self')

    def __init__(self, body, bb, term):
        self.body = body
        self.bb = bb
        self.term = term
        f = term['func']
        self.args = term['args']
        self.dest = term['dest']
        self.target = term['target']
        self.line = term['span']['line']
        self.macros = term['span'].get('macros', []) if term['span'].get('exp') else []
        self.snippet = term.get('snippet')
        self.fnptr = None
        self.impl_self = None
        if f['k'] == 'const' and 'fn' in f:
            fn = f['fn']
            self.decl = fn['path']
            self.full = fn['full']
            self.gargs = fn['args']
            self.trait = fn.get('trait')
            self.method = fn.get('method')
            r = fn.get('resolved')
            if r:
                self.kind = r['kind']
                self.name = r['path'] if r['kind'] != 'virtual' else fn['path']
                self.rfull = r['full']
                self.local = r['local'] if r['kind'] != 'virtual' else fn['local']
                self.impl_self = r.get('impl_self')
            else:
                self.kind = 'unresolved'
                self.name = fn['path']
                self.rfull = fn['full']
                self.local = fn['local']
        else:
            self.decl = self.name = self.full = self.rfull = '<indirect>'
            self.kind = 'indirect'
            self.gargs = []
            self.trait = self.method = None
            self.local = False
            self.fnptr = f

    @property
    def site(self):
        return (self.body.path, self.bb)

    def is_(self, *pats):
        """match callee by exact path, by '::'-suffix, or by regex (pattern starting with '~')."""
        for p in pats:
            for n in (self.name, self.decl):
                if p.startswith('~'):
                    if re.search(p[1:], n):
                        return True
                elif n == p or n.endswith('::' + p):
                    return True
        return False

    def where(self):
        return '%s:%d (%s bb%d)' % (self.body.file, self.line, self.body.path, self.bb)

    def __repr__(self):
        return '<call %s @ %s>' % (self.name, self.where())


class Body:
    def __init__(self, prog, raw, path=None):
        self.prog = prog
        self.raw = raw
        self.path = path or raw['path']
        self.kind = raw.get('kind', 'Promoted')
        self.file = raw.get('span', {}).get('file', '?')
        self.line_lo = raw.get('line_lo', 0)
        self.line_hi = raw.get('line_hi', 0)
        self.blocks = raw['blocks']
        self.locals = raw['locals']
        self.arg_count = raw['arg_count']
        self.impl_self = raw.get('impl_self')
        self.impl_trait = raw.get('impl_trait')
        self.trait_default_of = raw.get('trait_default_of')
        self.closure_parent = raw.get('closure_parent')
        self.names = {}
        self.upvar_names = {}
        for d in raw['debug']:
            v = d['val']
            if 'l' in v:
                if not v['p']:
                    self.names.setdefault(v['l'], d['name'])
                else:
                    self.upvar_names[fmt_place(v)] = d['name']
        self.n = len(self.blocks)
        self.live = [i for i, b in enumerate(self.blocks) if not b.get('cleanup')]
        self.succ = {i: self._succs(i) for i in self.live}
        self.pred = defaultdict(list)
        for i, ss in self.succ.items():
            for s2 in ss:
                self.pred[s2].append(i)
        self._reach = None
        self._dom = None
        self._pdom = None
        self._defs = None
        self._cache = {}
        self.calls = []
        for i in self.live:
            t = self.blocks[i]['term']
            if t['k'] == 'call':
                self.calls.append(CallSite(self, i, t))
        self.call_at = {c.bb: c for c in self.calls}
        # call sites in control-flow (reverse post-) order: block numbering says nothing once helper bodies and
        # closures have been spliced in at the end of the block list
        order = self._rpo_index()
        self.calls.sort(key=lambda c: (order.get(c.bb, 1 << 30), c.bb))
        self.promoted = [Body(prog, dict(p, span=raw.get('span', {})), '%s::promoted[%d]' % (self.path, i))
                         for i, p in enumerate(raw.get('promoted', []))]

    # --- CFG -----------------------------------------------------------------------------
    def _rpo_index(self):
        seen = {0}
        post = []
        stack = [(0, iter(self.succ.get(0, [])))]
        while stack:
            node, it = stack[-1]
            adv = False
            for s2 in it:
                if s2 not in seen:
                    seen.add(s2)
                    stack.append((s2, iter(self.succ.get(s2, []))))
                    adv = True
                    break
            if not adv:
                post.append(node)
                stack.pop()
        return {b: i for i, b in enumerate(reversed(post))}

    def _succs(self, i):
        t = self.blocks[i]['term']
        k = t['k']
        if k == 'goto':
            return [t['target']]
        if k == 'switch':
            out = []
            for _, bb in t['arms']:
                if bb not in out:
                    out.append(bb)
            if t['otherwise'] not in out:
                out.append(t['otherwise'])
            return out
        if k in ('call',):
            return [t['target']] if t['target'] is not None else []
        if k in ('assert', 'drop'):
            return [t['target']]
        return []

    def reachable(self):
        if self._reach is None:
            seen = {0}
            dq = deque([0])
            while dq:
                b = dq.popleft()
                for s2 in self.succ.get(b, []):
                    if s2 not in seen:
                        seen.add(s2)
                        dq.append(s2)
            self._reach = seen
        return self._reach

    def dominators(self):
        """dom[b] = set of blocks dominating b (including b)."""
        if self._dom is None:
            nodes = sorted(self.reachable())
            allset = set(nodes)
            dom = {b: set(allset) for b in nodes}
            dom[0] = {0}
            changed = True
            while changed:
                changed = False
                for b in nodes:
                    if b == 0:
                        continue
                    ps = [p for p in self.pred[b] if p in allset]
                    new = set(allset)
                    for p in ps:
                        new &= dom[p]
                    new.add(b)
                    if new != dom[b]:
                        dom[b] = new
                        changed = True
            self._dom = dom
        return self._dom

    def dominates(self, a, b):
        return a in self.dominators().get(b, ())

    def exits(self):
        """blocks whose terminator leaves the function normally (return)."""
        return [b for b in self.reachable() if self.blocks[b]['term']['k'] == 'return']

    def loops(self):
        """natural loops: list of (header, body_set, back_edge_sources)."""
        key = 'loops'
        if key in self._cache:
            return self._cache[key]
        dom = self.dominators()
        loops = {}
        for b in self.reachable():
            for s2 in self.succ[b]:
                if s2 in dom[b]:  # back edge b -> s2
                    body = {s2, b}
                    stack = [b]
                    while stack:
                        x = stack.pop()
                        if x == s2:
                            continue
                        for p in self.pred[x]:
                            if p not in body and p in self.reachable():
                                body.add(p)
                                stack.append(p)
                    if s2 in loops:
                        loops[s2][0].update(body)
                        loops[s2][1].append(b)
                    else:
                        loops[s2] = (body, [b])
        res = [(h, v[0], v[1]) for h, v in sorted(loops.items())]
        self._cache[key] = res
        return res

    def loop_depth(self, bb):
        return sum(1 for h, body, _ in self.loops() if bb in body)

    def innermost_loop(self, bb):
        best = None
        for lp in self.loops():
            if bb in lp[1] and (best is None or len(lp[1]) < len(best[1])):
                best = lp
        return best

    def reach_from(self, start, avoid=()):
        """blocks reachable from `start` (inclusive) without passing through `avoid` blocks."""
        avoid = set(avoid)
        seen = set()
        dq = deque([start])
        while dq:
            b = dq.popleft()
            if b in seen or b in avoid:
                continue
            seen.add(b)
            for s2 in self.succ.get(b, []):
                dq.append(s2)
        return seen

    def path_exists(self, src, dst_set, avoid=()):
        r = self.reach_from(src, avoid)
        return bool(r & set(dst_set))

    def shortest_path(self, src, dst_set, avoid=()):
        avoid = set(avoid)
        dst_set = set(dst_set)
        prev = {src: None}
        dq = deque([src])
        while dq:
            b = dq.popleft()
            if b in dst_set:
                out = []
                while b is not None:
                    out.append(b)
                    b = prev[b]
                return out[::-1]
            for s2 in self.succ.get(b, []):
                if s2 not in prev and s2 not in avoid:
                    prev[s2] = b
                    dq.append(s2)
        return None

    def line_of(self, bb):
        return self.blocks[bb]['term']['span']['line']

    def fmt_path(self, blocks):
        return ' -> '.join('bb%d(L%d)' % (b, self.line_of(b)) for b in blocks)

    # --- definitions ------------------------------------------------------------------------
    def defs(self):
        """local -> list of ('assign', bb, idx, rvalue) | ('call', bb, callsite) for whole-local defs;
        partial (projected) writes are listed under self.partial_defs()."""
        if self._defs is None:
            d = defaultdict(list)
            pd = defaultdict(list)
            stores = []
            for i in self.live:
                blk = self.blocks[i]
                for j, st in enumerate(blk['stmts']):
                    if st['k'] == 'assign':
                        p = st['place']
                        if not p['p']:
                            d[p['l']].append(('assign', i, j, st['rv']))
                        else:
                            pd[p['l']].append(('assign', i, j, st))
                            stores.append((i, j, p, st['rv'], st))
                t = blk['term']
                if t['k'] == 'call':
                    p = t['dest']
                    if not p['p']:
                        d[p['l']].append(('call', i, self.call_at[i]))
                    else:
                        pd[p['l']].append(('call', i, self.call_at[i]))
                        stores.append((i, 'term', p, None, t))
            self._defs = (d, pd, stores)
        return self._defs[0]

    def partial_defs(self):
        self.defs()
        return self._defs[1]

    def stores(self):
        """all writes through a projection: (bb, idx, place, rvalue|None, stmt_or_term)"""
        self.defs()
        return self._defs[2]

    # --- expressions ------------------------------------------------------------------------
    def param_expr(self, idx):
        return ('param', self.path, idx, self.names.get(idx, ''))

    def local_expr(self, l, seen=()):
        key = ('le', l)
        if key in self._cache and not seen:
            return self._cache[key]
        if 1 <= l <= self.arg_count:
            # parameters may be reassigned, but that is rare; treat as param unless whole-def'd
            if not self.defs().get(l):
                return self.param_expr(l)
        if l in seen:
            return ('cyc', l)
        ds = self.defs().get(l, [])
        if not ds:
            e = ('local', self.path, l)
        else:
            seen2 = seen + (l,)
            outs = []
            for dd in ds:
                if dd[0] == 'assign':
                    outs.append(self.rvalue_expr(dd[3], seen2))
                else:
                    outs.append(self.call_expr(dd[2], seen2))
            if 1 <= l <= self.arg_count:
                outs.insert(0, self.param_expr(l))
            uniq = []
            for o in outs:
                if o not in uniq:
                    uniq.append(o)
            if len(uniq) > 1:
                # the success payload of a value built as a failure is never produced: not an alternative
                live = [o for o in uniq if not _impossible_payload(o)]
                uniq = live or uniq
            e = uniq[0] if len(uniq) == 1 else ('phi', tuple(uniq))
        if not seen:
            self._cache[key] = e
        return e

    def place_expr(self, p, seen=()):
        e = self.local_expr(p['l'], seen)
        for el in p['p']:
            k = el['k']
            if k == 'deref':
                e = mk_deref(e)
            elif k == 'field':
                e = mk_field(e, el['name'])
            elif k == 'index':
                e = ('idx', e, self.local_expr(el['local'], seen))
            elif k == 'cindex':
                e = ('cidx', e, el['offset'], el['from_end'])
            elif k == 'subslice':
                e = ('subslice', e, el['from'], el['to'], el['from_end'])
            elif k == 'downcast':
                e = mk_variant(e, str(el['variant']))
            else:
                e = ('unknown', k)
        return e

    def op_expr(self, o, seen=()):
        k = o['k']
        if k in ('copy', 'move'):
            return self.place_expr(o['place'], seen)
        if k == 'const':
            return const_expr(o, self)
        return ('unknown', o.get('dbg', k))

    def rvalue_expr(self, rv, seen=()):
        k = rv['k']
        if k == 'use':
            return self.op_expr(rv['op'], seen)
        if k == 'ref' or k == 'rawptr':
            return mk_ref(self.place_expr(rv['place'], seen))
        if k == 'cast':
            inner = self.op_expr(rv['op'], seen)
            kind = rv['kind']
            if kind.startswith('PointerCoercion') or kind in ('PtrToPtr', 'Subtype'):
                # unsizing/closure->fnptr coercions do not change the value
                return inner
            return ('cast', kind, inner, rv['to'], rv['from'])
        if k == 'binop':
            return ('bin', rv['op'], self.op_expr(rv['a'], seen), self.op_expr(rv['b'], seen))
        if k == 'unop':
            return ('un', rv['op'], self.op_expr(rv['a'], seen))
        if k == 'discr':
            return ('discr', self.place_expr(rv['place'], seen))
        if k == 'aggr':
            ak = rv['akind']
            ops = [self.op_expr(o, seen) for o in rv['ops']]
            if ak == 'adt':
                return ('aggr', 'adt', rv['adt'] + '::' + rv['variant'], tuple(zip(rv['fields'], ops)))
            if ak == 'closure':
                return ('aggr', 'closure', rv['closure'], tuple((str(i), o) for i, o in enumerate(ops)))
            return ('aggr', ak, '', tuple((str(i), o) for i, o in enumerate(ops)))
        if k == 'repeat':
            return ('aggr', 'repeat', rv['count'], (('0', self.op_expr(rv['op'], seen)),))
        return ('unknown', rv.get('dbg', k))

    def call_expr(self, cs, seen=()):
        args = tuple(self.op_expr(a, seen) for a in cs.args)
        if cs.name.endswith('from_residual') and args and args[0][0] == 'aggr' and args[0][1] == 'adt' and \
                args[0][2].endswith(('Result::Err', 'Option::None')):
            return args[0]  # `Err(e)?` returns Err(From::from(e)); the conversion is value-preserving for provenance
        if args and re.search(r'(option::Option|result::Result)::<.*>::(unwrap|expect)$', cs.name):
            return mk_try(args[0])   # the value of x.unwrap() is the payload `x?` names (the panic is a C14 site)
        if cs.kind == 'indirect':
            return ('call', '<indirect>', (self.op_expr(cs.fnptr, seen),) + args, cs.site)
        return ('call', cs.name, args, cs.site)

    def arg_exprs(self, cs):
        return [self.op_expr(a) for a in cs.args]

    def ret_expr(self):
        return self.local_expr(0)

    def ret_defs(self):
        """definitions of the return value, looking through whole-local copies: `let r = if c {A} else {B}; r` and
        a function whose returns were funnelled through an inlined helper yield the same entries as
        `if c { return A } return B` — one per original definition, at the block that made it"""
        key = 'ret_defs'
        if key in self._cache:
            return self._cache[key]
        out = []
        seen_sites = set()

        def expand(l, seen):
            for d in self.defs().get(l, []):
                if d[0] == 'assign' and d[3]['k'] == 'use' and d[3]['op'].get('k') in ('move', 'copy') and not d[3]['op']['place']['p']:
                    src = d[3]['op']['place']['l']
                    if src != 0 and src not in seen and self.defs().get(src) and not (1 <= src <= self.arg_count):
                        expand(src, seen | {src})
                        continue
                site = (d[0], d[1], d[2] if d[0] == 'assign' else id(d[2]))
                if site not in seen_sites:
                    seen_sites.add(site)
                    out.append(d)
        expand(0, {0})
        self._cache[key] = out
        return out

    # --- switch / edge facts --------------------------------------------------------------------
    def switch_info(self, bb):
        """for a SwitchInt block: (kind, subject_expr, {target_bb: label}) where kind is
        'bool' (labels True/False), 'enum' (labels = variant-name tuples) or 'int' (labels = value tuples)."""
        t = self.blocks[bb]['term']
        if t['k'] != 'switch':
            return None
        d = t['discr']
        subj = self.op_expr(d)
        ty = t.get('discr_ty', '')
        arms = [(int(v), tgt) for v, tgt in t['arms']]
        if ty == 'bool':
            lab = defaultdict(list)
            for v, tgt in arms:
                lab[tgt].append(bool(v))
            other = [x for x in (False, True) if x not in [bool(v) for v, _ in arms]]
            lab[t['otherwise']].extend(other)
            return ('bool', subj, {k: tuple(v) for k, v in lab.items()})
        if subj[0] == 'discr':
            # find variant table from the defining statement
            vt = None
            if d['k'] in ('copy', 'move') and not d['place']['p']:
                for dd in self.defs().get(d['place']['l'], []):
                    if dd[0] == 'assign' and dd[3]['k'] == 'discr':
                        vt = {int(v): nme for v, nme in dd[3].get('variants', [])}
            lab = defaultdict(list)
            named = set()
            for v, tgt in arms:
                nm = vt.get(v, str(v)) if vt else str(v)
                lab[tgt].append(nm)
                named.add(nm)
            if vt:
                rest = [nm for v, nm in sorted(vt.items()) if nm not in named]
                # `otherwise` covers the remaining variants (may be unreachable)
                if t['otherwise'] not in lab or rest:
                    lab[t['otherwise']].extend(rest)
            es, conv = norm_enum_subject(subj[1])
            return ('enum', es, {k: tuple(conv.get(x, x) for x in v) for k, v in lab.items()})
        lab = defaultdict(list)
        for v, tgt in arms:
            lab[tgt].append(v)
        lab[t['otherwise']].append('otherwise')
        return ('int', subj, {k: tuple(v) for k, v in lab.items()})

    def edge_facts(self):
        """(src, dst) -> list of facts. fact forms:
           ('cond', E, True|False)      E is a boolean expression
           ('is', E, (variants...))     discriminant of E is one of variants
           ('eq', E, (values...)) / ('ne', E, (values...))"""
        key = 'edge_facts'
        if key in self._cache:
            return self._cache[key]
        out = defaultdict(list)
        for bb in self.reachable():
            si = self.switch_info(bb)
            if not si:
                continue
            kind, subj, lab = si
            for tgt, labels in lab.items():
                if kind == 'bool':
                    if len(labels) == 1:
                        # opt.is_some() / is_none() / res.is_ok() / is_err() are discriminant tests
                        ps = peel(subj, calls=False)
                        if ps[0] == 'call' and ps[2] and re.search(r'(option::Option|result::Result)::<.*>::(is_some|is_none|is_ok|is_err)$', ps[1]):
                            m0 = method_name(ps[1])
                            pos, neg = {'is_some': ('Some', 'None'), 'is_none': ('None', 'Some'), 'is_ok': ('Ok', 'Err'), 'is_err': ('Err', 'Ok')}[m0]
                            es, conv = norm_enum_subject(peel(ps[2][0], calls=False))
                            v = pos if labels[0] else neg
                            out[(bb, tgt)].append(('is', es, (conv.get(v, v),)))
                            continue
                        out[(bb, tgt)].append(('cond', subj, labels[0]))
                elif kind == 'enum':
                    if labels:
                        ps = peel(subj, calls=False)
                        # slice.get(i) is Some exactly when i < len; slice.get(..n) when n <= len; split_first() when 0 < len
                        if ps[0] == 'call' and tuple(labels) in (('None',), ('Some',)) and ps[2] and \
                                ((_SLICE_GET.search(ps[1]) and len(ps[2]) == 2) or _SPLIT_FIRST.search(ps[1])):
                            ln = ('call', _LEN_NAME, (ps[2][0],), None)
                            some = tuple(labels) == ('Some',)
                            if _SPLIT_FIRST.search(ps[1]):
                                rel = ('bin', 'Lt', ('int', 0, 'usize'), ln) if some else ('bin', 'Le', ln, ('int', 0, 'usize'))
                            elif _is_range_expr(ps[2][1]):
                                rg = peel(ps[2][1], calls=False)
                                f = dict(rg[3])
                                if rg[2].endswith('RangeTo::RangeTo') and 'end' in f:
                                    rel = ('bin', 'Le', f['end'], ln) if some else ('bin', 'Lt', ln, f['end'])
                                else:
                                    rel = None
                            else:
                                rel = ('bin', 'Lt', ps[2][1], ln) if some else ('bin', 'Le', ln, ps[2][1])
                            if rel is not None:
                                out[(bb, tgt)].append(('cond', rel, True))
                                continue
                        # a.checked_sub(b) is None exactly when a < b (unsigned)
                        if ps[0] == 'call' and re.search(r'num::<impl u\d+>::checked_sub$|num::<impl usize>::checked_sub$', ps[1]) and len(ps[2]) == 2 and tuple(labels) in (('None',), ('Some',)):
                            if tuple(labels) == ('None',):
                                out[(bb, tgt)].append(('cond', ('bin', 'Lt', ps[2][0], ps[2][1]), True))
                            else:
                                out[(bb, tgt)].append(('cond', ('bin', 'Le', ps[2][1], ps[2][0]), True))
                            continue
                        out[(bb, tgt)].append(('is', subj, tuple(labels)))
                    elif len(lab) > 1:
                        # `otherwise` of a switch that names every variant: no value takes this edge
                        out[(bb, tgt)].append(('is', subj, ()))
                else:
                    vals = tuple(v for v in labels if v != 'otherwise')
                    ty = self.blocks[bb]['term'].get('discr_ty', '')
                    if ty.startswith('u') and len(lab) == 2 and set(v for ls in lab.values() for v in ls) == {0, 'otherwise'}:
                        # `match x { 0 => .., _ => .. }` on an unsigned x is the test x == 0
                        zero = ('int', 0, ty)
                        if vals == (0,):
                            out[(bb, tgt)].append(('cond', ('bin', 'Le', subj, zero), True))
                        else:
                            out[(bb, tgt)].append(('cond', ('bin', 'Lt', zero, subj), True))
                        continue
                    if 'otherwise' in labels:
                        allv = tuple(v for ls in lab.values() for v in ls if v != 'otherwise')
                        out[(bb, tgt)].append(('ne', subj, tuple(x for x in allv if x not in vals)))
                    else:
                        out[(bb, tgt)].append(('eq', subj, vals))
        self._cache[key] = out
        return out

    def facts_in(self):
        """must-hold facts at block entry: forward dataflow, meet = intersection.
        Facts are over symbolic expressions; those that read a memory place (field/idx/deref) are
        killed by blocks that may write memory (stores or calls receiving a &mut / mutable place)."""
        key = 'facts_in'
        if key in self._cache:
            return self._cache[key]
        ef = self.edge_facts()
        nodes = sorted(self.reachable())
        TOP = None
        fin = {b: TOP for b in nodes}
        fin[0] = frozenset()
        writes = {b: self.block_writes(b) for b in nodes}

        def out_of(b):
            f = fin[b]
            if f is TOP:
                return TOP
            w = writes[b]
            if w:
                f = frozenset(x for x in f if not fact_killed(x, w))
            return f
        changed = True
        it = 0
        while changed and it < 200:
            changed = False
            it += 1
            for b in nodes:
                if b == 0:
                    continue
                acc = TOP
                for p in self.pred[b]:
                    if p not in fin:
                        continue
                    o = out_of(p)
                    if o is TOP:
                        continue
                    new = ef.get((p, b), [])
                    if new and _contradicts(o, new):
                        # the edge cannot be taken (e.g. a drop-elaboration re-test of a discriminant that an
                        # enclosing match arm already fixed): it contributes no executions
                        continue
                    o = o | frozenset(new)
                    acc = o if acc is TOP else (acc & o)
                if acc is not TOP and acc != fin[b]:
                    fin[b] = acc
                    changed = True
        res = {b: (f if f is not None else frozenset()) for b, f in fin.items()}
        self._cache['dead_blocks'] = frozenset(b for b, f in fin.items() if f is None)
        self._cache[key] = res
        return res

    def edge_infeasible(self, src, dst):
        """the condition of edge src->dst contradicts a fact that must hold when src is left"""
        if self.is_dead(src):
            return True
        f = self.facts_in().get(src, frozenset())
        w = self.block_writes(src)
        if w:
            f = frozenset(x for x in f if not fact_killed(x, w))
        return _contradicts(f, self.edge_facts().get((src, dst), []))

    def is_dead(self, bb):
        """no feasible path reaches bb (every path takes an edge whose condition contradicts a must-hold fact)"""
        self.facts_in()
        return bb in self._cache['dead_blocks']

    def block_may_write(self, b):
        """does block b contain a store through a projection or a call that may mutate memory
        reachable from its arguments (any &mut argument)?"""
        blk = self.blocks[b]
        for st in blk['stmts']:
            if st['k'] == 'assign' and st['place']['p']:
                return True
        t = blk['term']
        if t['k'] == 'call':
            if t['dest']['p']:
                return True
            for a in t['args']:
                if a['k'] in ('copy', 'move'):
                    ty = a['place']['ty']
                    if ty.startswith('&mut') or ty.startswith('*mut'):
                        return True
        return False

    def block_writes(self, b):
        """memory possibly written by block b: 'ALL' or a list of (root, field-chain) access paths"""
        key = ('bw', b)
        if key in self._cache:
            return self._cache[key]
        out = []
        blk = self.blocks[b]

        def add_place_expr(e):
            root, ch = field_chain(e)
            if root[0] == 'param':
                out.append((('param', root[2]), tuple(ch)))
                return True
            # an element handed out by an iterator over a parameter's collection (`for x in p.iter_mut()..`): the
            # borrow rules confine it to memory reachable from that parameter
            r2 = root
            for _ in range(8):
                if r2[0] == 'call' and r2[2] and (method_name(r2[1]) in _ITER_SHAPING or 'Iterator' in r2[1] or 'IntoIterator' in r2[1]):
                    r2, _ch = field_chain(r2[2][0])
                else:
                    break
            if r2[0] == 'param' and r2 is not root:
                out.append((('param', r2[2]), ()))
                return True
            return False
        res = None
        for st in blk['stmts']:
            if st['k'] == 'assign' and st['place']['p']:
                if not add_place_expr(self.place_expr(st['place'])):
                    res = 'ALL'
        t = blk['term']
        if t['k'] == 'call' and res is None:
            if t['dest']['p'] and not add_place_expr(self.place_expr(t['dest'])):
                res = 'ALL'
            for a in t['args']:
                if a['k'] in ('copy', 'move'):
                    ty = a['place']['ty']
                    if ty.startswith('&mut') or ty.startswith('*mut'):
                        if not add_place_expr(self.op_expr(a)):
                            # a mutable borrow of a local that holds no further mutable reference
                            # cannot alias memory reachable from the parameters
                            if '&mut' in ty[4:] or '*mut' in ty[4:] or 'dyn ' in ty or 'Box<' in ty or 'Rc<' in ty or 'RefCell' in ty:
                                res = 'ALL'
                            else:
                                e = peel(self.op_expr(a), calls=False)
                                if e[0] not in ('local', 'aggr', 'call', 'phi', 'int', 'cyc'):
                                    res = 'ALL'
                                else:
                                    # the local itself may be rewritten: facts mentioning its value die
                                    out.append((('expr', e), ()))
        if res is None:
            res = out
        self._cache[key] = res
        return res

    def facts_at(self, bb):
        return self.facts_in().get(bb, frozenset())

    def facts_on_edge(self, src, dst):
        f = self.facts_in().get(src, frozenset())
        w = self.block_writes(src)
        if w:
            f = frozenset(x for x in f if not fact_killed(x, w))
        return f | frozenset(self.edge_facts().get((src, dst), []))

    # --- uses ---------------------------------------------------------------------------------
    def uses(self):
        """local -> list of (bb, idx|'term', how) for every read of the local (moves/copies/borrows,
        projections through it, switch discriminants, call arguments). Drops are recorded as how='drop'."""
        key = 'uses'
        if key in self._cache:
            return self._cache[key]
        u = defaultdict(list)

        def place_reads(p, bb, idx, how):
            u[p['l']].append((bb, idx, how))
            for el in p['p']:
                if el['k'] == 'index':
                    u[el['local']].append((bb, idx, 'index'))

        def op_reads(o, bb, idx, how):
            if o['k'] in ('copy', 'move'):
                place_reads(o['place'], bb, idx, how)

        for i in self.live:
            blk = self.blocks[i]
            for j, st in enumerate(blk['stmts']):
                if st['k'] != 'assign':
                    continue
                rv = st['rv']
                k = rv['k']
                if k in ('use', 'cast', 'repeat'):
                    op_reads(rv['op'], i, j, 'use')
                elif k in ('ref', 'rawptr'):
                    place_reads(rv['place'], i, j, 'ref')
                elif k == 'binop':
                    op_reads(rv['a'], i, j, 'use')
                    op_reads(rv['b'], i, j, 'use')
                elif k == 'unop':
                    op_reads(rv['a'], i, j, 'use')
                elif k == 'discr':
                    place_reads(rv['place'], i, j, 'discr')
                elif k == 'aggr':
                    for o in rv['ops']:
                        op_reads(o, i, j, 'use')
                # writes through a projection read the base pointer
                if st['place']['p']:
                    for el in st['place']['p']:
                        if el['k'] == 'index':
                            u[el['local']].append((i, j, 'index'))
                    if any(el['k'] == 'deref' for el in st['place']['p']):
                        u[st['place']['l']].append((i, j, 'store-through'))
            t = blk['term']
            k = t['k']
            if k == 'switch':
                op_reads(t['discr'], i, 'term', 'switch')
            elif k == 'call':
                op_reads(t['func'], i, 'term', 'callee')
                for a in t['args']:
                    op_reads(a, i, 'term', 'arg')
            elif k == 'assert':
                op_reads(t['cond'], i, 'term', 'assert')
            elif k == 'drop':
                u[t['place']['l']].append((i, 'term', 'drop'))
        self._cache[key] = u
        return u

    def all_places(self):
        """every place mentioned in the body (reads and writes): yields (bb, place)"""
        for i in self.live:
            blk = self.blocks[i]
            for st in blk['stmts']:
                if st['k'] != 'assign':
                    continue
                yield i, st['place']
                rv = st['rv']
                if 'place' in rv:
                    yield i, rv['place']
                for o in _rv_operands(rv):
                    if o['k'] in ('copy', 'move'):
                        yield i, o['place']
            t = blk['term']
            if t['k'] == 'call':
                yield i, t['dest']
                for a in t['args']:
                    if a['k'] in ('copy', 'move'):
                        yield i, a['place']
                if t['func']['k'] in ('copy', 'move'):
                    yield i, t['func']['place']
            elif t['k'] == 'switch' and t['discr']['k'] in ('copy', 'move'):
                yield i, t['discr']['place']
            elif t['k'] == 'drop':
                yield i, t['place']

    def real_uses(self, l):
        return [x for x in self.uses().get(l, []) if x[2] != 'drop']

    # --- misc ---------------------------------------------------------------------------------
    def calls_matching(self, *pats):
        return [c for c in self.calls if c.is_(*pats)]

    def local_ty(self, l):
        return self.locals[l]['ty']

    def closures_created(self):
        out = []
        for i in self.live:
            for st in self.blocks[i]['stmts']:
                if st['k'] == 'assign' and st['rv']['k'] == 'aggr' and st['rv']['akind'] == 'closure':
                    out.append(st['rv']['closure'])
        return out

    def asserts(self):
        out = []
        for i in sorted(self.reachable()):
            t = self.blocks[i]['term']
            if t['k'] == 'assert':
                out.append((i, t))
        return out


_ITER_SHAPING = {'next', 'iter', 'iter_mut', 'into_iter', 'enumerate', 'take', 'skip', 'rev', 'zip', 'chunks', 'chunks_mut', 'chunks_exact',
                 'chunks_exact_mut', 'step_by', 'by_ref', 'peekable', 'values_mut', 'values', 'keys'}


def fact_killed(f, writes):
    """is fact f invalidated by the given writes ('ALL' or access paths)?"""
    if writes != 'ALL':
        for (wr, wch) in writes:
            if wr[0] == 'expr' and contains(f[1], lambda y: y == wr[1]):
                return True
    if not fact_reads_memory(f):
        return False
    if writes == 'ALL':
        return True
    for x in _access_paths(f[1]):
        if not contains(x, lambda y: y[0] == 'deref'):
            continue  # projection of a value (no pointer involved): not memory
        root, ch = field_chain(x)
        if root[0] != 'param':
            return True  # memory reached through something we cannot name
        for (wr, wch) in writes:
            if wr == ('param', root[2]):
                n = min(len(ch), len(wch))
                if tuple(ch[:n]) == tuple(wch[:n]):
                    return True
    return False


def _access_paths(e, _top=True):
    """the maximal access paths read by expression e (self.a.b is one path, not also self.a and *self), plus the
    paths inside index expressions and call arguments"""
    if not isinstance(e, tuple) or not e:
        return
    k = e[0]
    if k in ('field', 'idx', 'deref', 'cidx', 'subslice', 'variant'):
        yield e
        # descend along the base without yielding its prefixes, but do visit index expressions and non-path bases
        x = e
        while isinstance(x, tuple) and x and x[0] in ('field', 'idx', 'deref', 'cidx', 'subslice', 'variant', 'ref', 'try', 'named'):
            if x[0] == 'idx':
                for y in _access_paths(x[2]):
                    yield y
            x = x[2] if x[0] == 'named' else x[1]
        for y in _access_paths(x):
            if y is not x or x[0] not in ('field', 'idx', 'deref', 'cidx', 'subslice', 'variant'):
                yield y
        return
    for c in e:
        if isinstance(c, tuple):
            if c and isinstance(c[0], str) and c[0] in _KINDS:
                for y in _access_paths(c):
                    yield y
            else:
                for z in c:
                    if isinstance(z, tuple):
                        for y in _access_paths(z):
                            yield y


def fact_reads_memory(f):
    return contains(f[1], lambda x: x[0] == 'deref')


def mk_deref(e):
    if e[0] == 'ref':
        return e[1]
    if e[0] == 'aggr':
        return e   # `*env` where env was substituted by the closure value itself
    return ('deref', e)


def mk_ref(e):
    if e[0] == 'deref':
        return e[1]
    return ('ref', e)


def mk_variant(e, v):
    if e[0] == 'aggr' and e[1] == 'adt':
        if e[2].endswith('::' + v):
            return e  # projection onto the variant the value was built as
        return ('never',)  # projecting another variant of a value built as this one: dead path
    if e[0] == 'phi':
        alts = [mk_variant(x, v) for x in e[1]]
        alts = [a for a in alts if a != ('never',)]
        uniq = []
        for a in alts:
            if a not in uniq:
                uniq.append(a)
        if not uniq:
            return ('never',)
        return uniq[0] if len(uniq) == 1 else ('phi', tuple(uniq))
    if e[0] == 'never':
        return e
    return ('variant', e, v)


# success-preserving adapters: the Ok/Some payload of adapter(X, ..) is the Ok/Some payload of X, and the
# adapter's result is a failure exactly when X is one. (callee-name regex, {adapter variant: variant of X})
_ADAPTERS = [
    (r'option::Option::<.*>::ok_or(_else)?$|Option<T>::ok_or(_else)?$', {'Ok': 'Some', 'Err': 'None'}),
    (r'result::Result::<.*>::map_err$|Result<T, E>::map_err$', {'Ok': 'Ok', 'Err': 'Err'}),
    (r'result::Result::<.*>::ok$|Result<T, E>::ok$', {'Some': 'Ok', 'None': 'Err'}),
    # views of an Option: same variant, same payload (modulo references)
    (r'option::Option::<.*>::(as_ref|as_mut|as_deref|as_deref_mut|cloned|copied)$', {'Some': 'Some', 'None': 'None'}),
]


def _adapter(x):
    if x[0] == 'call' and x[2]:
        for rx, conv in _ADAPTERS:
            if re.search(rx, x[1]):
                return x[2][0], conv
    return None


def norm_enum_subject(e):
    """(subject', {variant name -> variant name of subject'}): `branch(X) is Continue` is `X is Ok` (or Some),
    `ok_or(X, _) is Err` is `X is None`, `map_err(X, f) is Ok` is `X is Ok` ..."""
    conv = {}
    for _ in range(6):
        step = None
        if e[0] == 'call' and e[1].endswith('Try>::branch') and e[2]:
            if 'result::Result<' in e[1]:
                step = (e[2][0], {'Continue': 'Ok', 'Break': 'Err'})
            elif 'option::Option<' in e[1]:
                step = (e[2][0], {'Continue': 'Some', 'Break': 'None'})
        else:
            step = _adapter(e)
        if step is None:
            break
        e, c = step
        if conv:
            conv = {k: c.get(v, v) for k, v in conv.items()}
        else:
            conv = dict(c)
    return e, conv


_SLICE_GET = re.compile(r'slice::<impl \[T\]>::get$|Vec::<.*>::get$')
_SPLIT_FIRST = re.compile(r'slice::<impl \[T\]>::split_first$')
_LEN_NAME = 'core::slice::<impl [T]>::len'
_INDEX_NAME = '<[T] as std::ops::Index<I>>::index'


def _is_range_expr(e):
    e = peel(e, calls=False)
    return e[0] == 'aggr' and e[1] == 'adt' and re.search(r'ops::Range(To|From|Inclusive|Full|ToInclusive)?::', e[2] or '') is not None


def _impossible_payload(e):
    if e[0] != 'try':
        return False
    x = e[1]
    if x[0] == 'call' and x[1].endswith('from_residual'):
        return True
    return x[0] == 'aggr' and x[1] == 'adt' and x[2].endswith(('Result::Err', 'Option::None'))


def mk_try(x):
    """success payload of `?` applied to x; sees through Ok(..) constructions and phis of them"""
    # slice.get(i) hands out &slice[i]; slice.get(range) hands out &slice[range]
    if x[0] == 'call' and len(x[2]) == 2 and _SLICE_GET.search(x[1]):
        if _is_range_expr(x[2][1]):
            return ('call', _INDEX_NAME, (x[2][0], x[2][1]), x[3] if len(x) > 3 else None)
        return ('idx', peel(x[2][0], calls=False), x[2][1])
    if x[0] == 'call' and len(x[2]) == 2 and re.search(r'num::<impl (u\d+|usize)>::checked_sub$', x[1]):
        return ('bin', 'Sub', x[2][0], x[2][1])   # the Some payload of a.checked_sub(b) is a - b
    ad = _adapter(x)
    if ad is not None:
        return mk_try(ad[0])
    if x[0] == 'aggr' and x[1] == 'adt' and x[2].endswith(('Result::Ok', 'Option::Some')) and x[3]:
        return x[3][0][1]
    if x[0] == 'phi':
        outs = []
        for a in x[1]:
            if a[0] == 'aggr' and a[1] == 'adt' and a[2].endswith(('Result::Err', 'Option::None')):
                continue
            if a[0] == 'call' and a[1].endswith('from_residual'):
                continue
            v = mk_try(a)
            if v not in outs:
                outs.append(v)
        if len(outs) == 1:
            return outs[0]
        if outs:
            return ('phi', tuple(outs))
    return ('try', x)


def mk_field(e, name):
    k = e[0]
    if k == 'aggr':
        for n2, v in e[3]:
            if n2 == name:
                return v
    if k == 'bin' and e[1].endswith('WithOverflow'):
        if name == '0':
            return ('bin', e[1][:-len('WithOverflow')], e[2], e[3])
        return ('ovf', e)
    if k == 'variant':
        inner = e[1]
        # success payload of `?`
        if e[2] == 'Continue' and inner[0] == 'call' and 'Try' in inner[1] and inner[1].endswith('branch') and name == '0':
            return mk_try(inner[2][0])
        # the residual of `opt.ok_or(E)?` is Err(E)
        if e[2] == 'Break' and inner[0] == 'call' and 'Try' in inner[1] and inner[1].endswith('branch') and name == '0' and inner[2]:
            src = peel(inner[2][0], calls=False)
            if src[0] == 'call' and len(src[2]) == 2 and re.search(r'option::Option::<.*>::ok_or$', src[1]):
                return ('aggr', 'adt', 'std::result::Result::Err', (('0', src[2][1]),))
        # `match x { Ok(v) => v, .. }` and `x?` name the same value
        if e[2] in ('Ok', 'Some') and name == '0':
            return mk_try(inner)
    if k == 'try':
        # slice.split_first() = Some((&s[0], &s[1..]))
        sf = peel(e[1], calls=False)
        if sf[0] == 'call' and sf[2] and _SPLIT_FIRST.search(sf[1]):
            base = peel(sf[2][0], calls=False)
            if name == '0':
                return ('idx', base, ('int', 0, 'usize'))
            if name == '1':
                rng = ('aggr', 'adt', 'std::ops::RangeFrom::RangeFrom', (('start', ('int', 1, 'usize')),))
                return ('call', _INDEX_NAME, (sf[2][0], rng), None)
    if k == 'phi':
        alts = [mk_field(x, name) for x in e[1]]
        alts = [a for a in alts if a != ('never',) and not _impossible_payload(a)]
        uniq = []
        for a in alts:
            if a not in uniq:
                uniq.append(a)
        if not uniq:
            return ('never',)
        return uniq[0] if len(uniq) == 1 else ('phi', tuple(uniq))
    if k == 'never':
        return e
    return ('field', e, name)


def const_expr(o, body=None):
    if 'fn' in o:
        return ('fn', o['fn']['path'], o['fn']['full'])
    v = o.get('val')
    ty = o['ty']
    e = None
    if v is None:
        e = ('const', ty, 'unevaluated')
    elif 'int' in v:
        e = ('int', int(v['int']), ty)
    elif 'bool' in v:
        e = ('bool', v['bool'])
    elif 'str' in v:
        e = ('str', v['str'])
    elif 'bytes' in v:
        e = ('bytes', bytes(v['bytes']))
    elif 'zst' in v:
        e = ('unit',) if ty == '()' else ('const', ty, 'zst')
    elif 'alloc_bytes' in v:
        if v.get('has_ptrs'):
            e = ('const', ty, json.dumps(v, sort_keys=True))
        else:
            e = ('bytes', bytes(v['alloc_bytes']))
    elif 'float' in v:
        e = ('const', ty, v['float'])
    else:
        e = ('const', ty, json.dumps(v, sort_keys=True))
    if 'promoted' in o and body is not None:
        # value of a promoted constant: evaluate the promoted body's return expression
        root = body
        idx = o['promoted']
        if idx < len(root.promoted):
            pe = root.promoted[idx].ret_expr()
            return ('named', '%s::promoted[%d]' % (root.path, idx), pe)
    if 'named' in o and 'promoted' not in o:
        return ('named', o['named'], e)
    return e


def unname(e):
    """strip ('named', path, E) wrappers"""
    while isinstance(e, tuple) and e and e[0] == 'named':
        e = e[2]
    return e


def int_value(e):
    e = unname(e)
    if e and e[0] == 'int':
        return e[1]
    if e and e[0] == 'cast' and e[1] == 'IntToInt':
        return int_value(e[2])
    return None


# transparent wrappers that preserve "the value" for provenance purposes
TRANSPARENT_CALLS = [
    r'IntoIterator>::into_iter$', r'::into_iter$', r'Deref>::deref$', r'DerefMut>::deref_mut$',
    r'AsRef<.*>>::as_ref$', r'Borrow<.*>>::borrow$', r'BorrowMut<.*>>::borrow_mut$',
    r'::as_path$', r'::as_bytes$', r'::as_str$', r'::as_slice$', r'::as_mut$', r'::as_ref$',
    r'Clone>::clone$', r'::to_owned$', r'::to_vec$', r'::into_owned$', r'::to_string$',
    r'From<.*>>::from$', r'Into<.*>>::into$', r'impl .*From<.*> for .*>::from$', r'::as_byte_array$', r'::from_byte_array$',
    r'::borrow_mut$', r'::borrow$', r'::iter$', r'::iter_mut$', r'::into_par_iter$', r'::deref$', r'::clone$',
    r'option::Option::<&(mut )?T>::cloned$', r'::as_deref$',
]
_TRANSPARENT_RE = [re.compile(p) for p in TRANSPARENT_CALLS]


def is_transparent_call(name):
    return any(r.search(name) for r in _TRANSPARENT_RE)


def peel(e, calls=True, casts=False, tries=True):
    """strip refs/derefs, named-const wrappers, `?`, and (optionally) transparent calls."""
    while True:
        k = e[0] if e else None
        if k in ('ref', 'deref'):
            e = e[1]
        elif k == 'named':
            e = e[2]
        elif k == 'try' and tries:
            e = e[1]
        elif k == 'cast' and casts:
            e = e[2]
        elif k == 'call' and calls and e[2] and is_transparent_call(e[1]):
            e = e[2][0]
        else:
            return e


def field_chain(e):
    """for an access path like self.a.b return (root, ['a','b']); refs/derefs are ignored."""
    names = []
    while True:
        e = peel(e, calls=False)
        if e[0] == 'field':
            names.append(e[2])
            e = e[1]
        elif e[0] == 'variant':
            e = e[1]
        elif e[0] in ('idx', 'cidx', 'subslice'):
            names.append('[]')
            e = e[1]
        else:
            return e, names[::-1]


def is_self_field(e, *names):
    root, ch = field_chain(e)
    return root[0] == 'param' and root[2] == 1 and tuple(ch[:len(names)]) == tuple(names)


def subst(e, mapping):
    """replace ('param', body, idx, name) leaves by mapping[idx]."""
    if not isinstance(e, tuple) or not e:
        return e
    if e[0] == 'param':
        if e[2] in mapping:
            return mapping[e[2]]
        return e
    if e[0] in ('int', 'bool', 'str', 'bytes', 'unit', 'const', 'fn', 'local', 'cyc', 'unknown', 'never'):
        return e
    out = []
    for c in e:
        if isinstance(c, tuple):
            if c and isinstance(c[0], str) and c[0] in _KINDS:
                out.append(subst(c, mapping))
            else:
                out.append(tuple(subst(x, mapping) if isinstance(x, tuple) else x for x in c))
        else:
            out.append(c)
    r = tuple(out)
    # re-simplify
    if r[0] == 'deref':
        return mk_deref(r[1])
    if r[0] == 'ref':
        return mk_ref(r[1])
    if r[0] == 'field':
        return mk_field(r[1], r[2])
    if r[0] == 'try':
        return mk_try(r[1])
    return r


_KINDS = {'never', 'int', 'bool', 'str', 'bytes', 'unit', 'const', 'named', 'fn', 'param', 'local', 'field', 'deref',
          'ref', 'idx', 'cidx', 'subslice', 'variant', 'discr', 'call', 'bin', 'un', 'cast', 'aggr', 'phi',
          'cyc', 'unknown', 'try', 'ovf'}


# ------------------------------------------------------------------------------------------

_CUR_PROG = [None]


class Program:
    def __init__(self, facts):
        _CUR_PROG[0] = self
        known = load_known_functions()
        self.type_renames = detect_adt_renames(facts)
        facts = apply_renames(facts, self.type_renames)
        self.renames = detect_renames(facts, known, load_known_signatures())
        facts = apply_renames(facts, self.renames)
        self.field_renames = detect_field_renames(facts, load_known_structs())
        facts = apply_field_renames(facts, self.field_renames)
        self.facts = facts
        self.meta = facts['meta']
        self.bodies = {}
        raw_by_path = {r['path']: r for r in facts['bodies']}
        raw_by_path, spliced = expand_combinators(raw_by_path)
        merged, used = inline_helpers(raw_by_path, known)
        # a generic helper that takes a callable only shows what it calls once it sits in its caller: alternate the
        # two passes until nothing changes (bounded)
        for _ in range(3):
            again, spliced2 = expand_combinators(merged)
            if all(again[k] is merged[k] for k in merged):
                break
            spliced |= spliced2
            merged, used2 = inline_helpers(again, known)
            used |= used2
        merged = unroll_all(merged)
        merged = thread_all(merged)
        merged = split_all(merged)
        self.inlined_helpers = sorted(used)
        self.spliced_closures = sorted(spliced)
        for path, raw in merged.items():
            if path in spliced:
                continue   # closure body now lives inside its creator
            if path in used:
                # a helper that was merged into its callers: keep it only if something still calls it directly
                still = any(_call_target_path(bl['term']) == path for r2 in merged.values() for bl in r2['blocks'] if bl['term']['k'] == 'call')
                if not still:
                    continue
            b = Body(self, raw)
            self.bodies[b.path] = b
        self.adts = {a['path']: a for a in facts['adts']}
        self.impls = facts['impls']
        self.traits = {t['path']: t for t in facts['traits']}
        self.consts = {c['path']: c for c in facts['consts']}
        self._cg = None

    def body(self, path):
        return self.bodies.get(path)

    def find(self, *pats):
        """bodies whose path equals / ends with '::'+pat / matches regex '~pat'."""
        out = []
        for p, b in self.bodies.items():
            for pat in pats:
                if pat.startswith('~'):
                    if re.search(pat[1:], p):
                        out.append(b)
                        break
                elif p == pat or p.endswith('::' + pat):
                    out.append(b)
                    break
        return out

    def one(self, *pats):
        r = self.find(*pats)
        if len(r) != 1:
            raise Unrecognised('anchor', 'expected exactly one body matching %s, found %d: %s'
                               % (pats, len(r), [b.path for b in r]))
        return r[0]

    def impls_of(self, trait_suffix):
        return [i for i in self.impls if i['trait'] and (i['trait'] == trait_suffix or i['trait'].endswith('::' + trait_suffix) or i['trait'].split('<')[0].endswith(trait_suffix))]

    def trait_method_impls(self, trait_path, method):
        """local bodies implementing trait::method (impl bodies + default body)."""
        out = []
        for b in self.bodies.values():
            if b.kind != 'AssocFn':
                continue
            if not b.path.endswith('::' + method):
                continue
            if b.impl_trait and (b.impl_trait == trait_path or b.impl_trait.split('<')[0] == trait_path):
                out.append(b)
            elif b.trait_default_of == trait_path:
                out.append(b)
        return out

    def adt_fields(self, path, variant=None):
        a = self.adts.get(path)
        if not a:
            return None
        v = a['variants'][0] if variant is None else next(x for x in a['variants'] if x['name'] == variant)
        return [(f['name'], f['ty']) for f in v['fields']]

    # --- call graph -------------------------------------------------------------------------------
    def callees(self, body):
        """local bodies possibly invoked from `body`: resolved direct calls, virtual calls expanded
        to all impls, closures created here, fn items passed as values."""
        out = []
        for cs in body.calls:
            out.extend(self.targets(cs))
        for c in body.closures_created():
            if c in self.bodies:
                out.append(self.bodies[c])
        # fn items used as values (e.g. map(Self::f))
        for i in body.live:
            for st in body.blocks[i]['stmts']:
                if st['k'] == 'assign':
                    for o in _rv_operands(st['rv']):
                        if o['k'] == 'const' and 'fn' in o:
                            p = (o['fn'].get('resolved') or {}).get('path') or o['fn']['path']
                            if p in self.bodies:
                                out.append(self.bodies[p])
            t = body.blocks[i]['term']
            if t['k'] == 'call':
                for o in t['args']:
                    if o['k'] == 'const' and 'fn' in o:
                        p = (o['fn'].get('resolved') or {}).get('path') or o['fn']['path']
                        if p in self.bodies:
                            out.append(self.bodies[p])
        seen = []
        for b in out:
            if b not in seen:
                seen.append(b)
        return seen

    def targets(self, cs):
        if cs.kind == 'virtual' or (cs.kind == 'unresolved' and cs.trait and cs.trait in self.traits):
            r = self.trait_method_impls(cs.trait, cs.method)
            return r
        if cs.name in self.bodies:
            return [self.bodies[cs.name]]
        if cs.decl in self.bodies:
            return [self.bodies[cs.decl]]
        return []

    def reachable_bodies(self, roots):
        seen = []
        dq = deque(roots)
        while dq:
            b = dq.popleft()
            if b in seen:
                continue
            seen.append(b)
            for c in self.callees(b):
                dq.append(c)
        return seen

    def callers_of(self, body):
        out = []
        for b in self.bodies.values():
            for cs in b.calls:
                if body in self.targets(cs):
                    out.append(cs)
        return out

    def all_calls(self):
        for b in self.bodies.values():
            for cs in b.calls:
                yield cs

    # --- inlining -----------------------------------------------------------------------------------
    def inline(self, e, depth=3, _stack=()):
        """replace calls to crate-local functions by their return expression (bounded depth)."""
        if not isinstance(e, tuple) or not e:
            return e
        if e[0] in ('int', 'bool', 'str', 'bytes', 'unit', 'const', 'fn', 'local', 'cyc', 'unknown', 'param'):
            return e
        if e[0] == 'call':
            args = tuple(self.inline(a, depth, _stack) for a in e[2])
            tgt = self.bodies.get(e[1])
            if tgt is not None and depth > 0 and e[1] not in _stack and tgt.kind != 'Closure':
                ret = tgt.ret_expr()
                mapping = {i + 1: a for i, a in enumerate(args)}
                r = subst(ret, mapping)
                return self.inline(r, depth - 1, _stack + (e[1],))
            return ('call', e[1], args) + tuple(e[3:])
        out = []
        for c in e:
            if isinstance(c, tuple):
                if c and isinstance(c[0], str) and c[0] in _KINDS:
                    out.append(self.inline(c, depth, _stack))
                else:
                    out.append(tuple(self.inline(x, depth, _stack) if isinstance(x, tuple) else x for x in c))
            else:
                out.append(c)
        r = tuple(out)
        if r[0] == 'deref':
            return mk_deref(r[1])
        if r[0] == 'ref':
            return mk_ref(r[1])
        if r[0] == 'field':
            return mk_field(r[1], r[2])
        if r[0] == 'try':
            return mk_try(r[1])
        return r

    def inline_only(self, e, names, depth=3):
        """inline calls to the local bodies in `names` only; call sites inside the inlined expression are
        tagged with the site of the call they were inlined at, so two inlinings of one helper stay distinct"""
        if not isinstance(e, tuple) or not e:
            return e
        if e[0] in ('int', 'bool', 'str', 'bytes', 'unit', 'const', 'fn', 'local', 'cyc', 'unknown', 'param'):
            return e
        if e[0] == 'call':
            args = tuple(self.inline_only(a, names, depth) for a in e[2])
            tgt = self.bodies.get(e[1])
            if tgt is not None and e[1] in names and depth > 0:
                mapping = {i + 1: a for i, a in enumerate(args)}
                r = tag_sites(subst(tgt.ret_expr(), mapping), e[3] if len(e) > 3 else None, tgt.path)
                return self.inline_only(r, names, depth - 1)
            return ('call', e[1], args) + tuple(e[3:])
        out = []
        for c in e:
            if isinstance(c, tuple):
                if c and isinstance(c[0], str) and c[0] in _KINDS:
                    out.append(self.inline_only(c, names, depth))
                else:
                    out.append(tuple(self.inline_only(x, names, depth) if isinstance(x, tuple) else x for x in c))
            else:
                out.append(c)
        r = tuple(out)
        if r[0] == 'deref':
            return mk_deref(r[1])
        if r[0] == 'ref':
            return mk_ref(r[1])
        if r[0] == 'field':
            return mk_field(r[1], r[2])
        if r[0] == 'try':
            return mk_try(r[1])
        return r


def tag_sites(e, outer, callee_path):
    """append `outer` to the site of every call that textually sits in body `callee_path`"""
    if not isinstance(e, tuple) or not e:
        return e
    if e[0] == 'call' and len(e) > 3:
        s = e[3]
        inner = s
        while isinstance(inner, tuple) and inner and isinstance(inner[0], tuple):
            inner = inner[0]
        args = tuple(tag_sites(a, outer, callee_path) for a in e[2])
        if isinstance(inner, tuple) and inner and inner[0] == callee_path and not (isinstance(s, tuple) and len(s) == 2 and s[1] == outer and isinstance(s[0], tuple)):
            return ('call', e[1], args, (s, outer))
        return ('call', e[1], args, s)
    out = []
    for c in e:
        if isinstance(c, tuple):
            if c and isinstance(c[0], str) and c[0] in _KINDS:
                out.append(tag_sites(c, outer, callee_path))
            else:
                out.append(tuple(tag_sites(x, outer, callee_path) if isinstance(x, tuple) else x for x in c))
        else:
            out.append(c)
    return tuple(out)


def _rv_operands(rv):
    k = rv['k']
    if k in ('use', 'cast', 'repeat'):
        return [rv['op']]
    if k == 'binop':
        return [rv['a'], rv['b']]
    if k == 'unop':
        return [rv['a']]
    if k == 'aggr':
        return rv['ops']
    return []


class Unrecognised(Exception):
    def __init__(self, what, detail):
        Exception.__init__(self, '%s: %s' % (what, detail))
        self.what = what
        self.detail = detail


# ------------------------------------------------------------------------------------------
# format templates

ARG_CTORS = {
    'new_display': 'Display', 'new_debug': 'Debug', 'new_lower_hex': 'LowerHex', 'new_upper_hex': 'UpperHex',
    'new_octal': 'Octal', 'new_binary': 'Binary', 'new_lower_exp': 'LowerExp', 'new_upper_exp': 'UpperExp',
    'new_pointer': 'Pointer', 'new_debug_noop': 'DebugNoop', 'from_usize': 'usize',
}

FLAG_BITS = {21: 'plus', 22: 'minus', 23: 'alternate', 24: 'zero_pad', 25: 'debug_lower_hex', 26: 'debug_upper_hex'}


def decode_template(bs):
    """decode the byte template of core::fmt::Arguments::new (this nightly's encoding);
    returns list of ('lit', str) | ('ph', spec) where spec has keys flags,width,precision,arg_index,fill,align."""
    out = []
    i = 0
    nxt = 0
    while True:
        if i >= len(bs):
            raise Unrecognised('fmt', 'template without terminator: %r' % (bs,))
        n = bs[i]
        i += 1
        if n == 0:
            break
        if n < 0x80:
            out.append(('lit', bs[i:i + n].decode('utf-8')))
            i += n
        elif n == 0x80:
            ln = int.from_bytes(bs[i:i + 2], 'little')
            i += 2
            out.append(('lit', bs[i:i + ln].decode('utf-8')))
            i += ln
        elif n >= 0xC0:
            spec = {'flags': [], 'width': None, 'precision': None, 'fill': ' ', 'align': None, 'default': n == 0xC0}
            if n & 1:
                fl = int.from_bytes(bs[i:i + 4], 'little')
                i += 4
                spec['fill'] = chr(fl & 0x1FFFFF)
                for bit, nm in FLAG_BITS.items():
                    if fl & (1 << bit):
                        spec['flags'].append(nm)
                al = (fl >> 29) & 3
                spec['align'] = {0: 'left', 1: 'right', 2: 'center', 3: None}[al]
            if n & 2:
                spec['width'] = int.from_bytes(bs[i:i + 2], 'little')
                i += 2
            if n & 4:
                spec['precision'] = int.from_bytes(bs[i:i + 2], 'little')
                i += 2
            if n & 8:
                nxt = int.from_bytes(bs[i:i + 2], 'little')
                i += 2
            if n & 16:
                spec['width'] = ('arg', spec['width'])
            if n & 32:
                spec['precision'] = ('arg', spec['precision'])
            spec['arg_index'] = nxt
            nxt += 1
            out.append(('ph', spec))
        else:
            raise Unrecognised('fmt', 'unknown template byte 0x%02x' % n)
    if i != len(bs):
        raise Unrecognised('fmt', 'trailing bytes after template terminator')
    return out


class Fmt:
    """a decoded format_args! site: pieces = [('lit', s) | ('arg', trait, spec, E, ty)]"""

    def __init__(self, cs, pieces):
        self.cs = cs
        self.pieces = pieces

    @property
    def literal_skeleton(self):
        return ''.join(p[1] if p[0] == 'lit' else '{}' for p in self.pieces)

    @property
    def args(self):
        return [p for p in self.pieces if p[0] == 'arg']

    def __repr__(self):
        return '<fmt %r @%s>' % (self.literal_skeleton, self.cs.where())


def decode_fmt(body, cs):
    """cs must be a call to fmt::Arguments::new / from_str / new_const."""
    if cs.is_('~Arguments::<.*>::from_str(_nonconst)?$', '~Arguments::from_str(_nonconst)?$', '~Arguments::<.*>::new_const'):
        e = unname(peel(body.op_expr(cs.args[0])))
        if e[0] == 'str':
            return Fmt(cs, [('lit', e[1])])
        if e[0] == 'aggr':
            return Fmt(cs, [('lit', ''.join(unname(peel(v))[1] for _, v in e[3]))])
        raise Unrecognised('fmt', 'from_str with non-literal at %s' % cs.where())
    if not cs.is_('~Arguments::<.*>::new$'):
        raise Unrecognised('fmt', 'not a format constructor: %s' % cs.name)
    tmpl = unname(peel(body.op_expr(cs.args[0])))
    if tmpl[0] != 'bytes':
        raise Unrecognised('fmt', 'template is not a constant at %s: %s' % (cs.where(), show(tmpl)))
    parts = decode_template(tmpl[1])
    arr = peel(body.op_expr(cs.args[1]))
    if arr[0] != 'aggr' or arr[1] != 'array':
        raise Unrecognised('fmt', 'argument array not found at %s: %s' % (cs.where(), show(arr)))
    argv = []
    for _, a in arr[3]:
        a = peel(a, calls=False)
        if a[0] != 'call':
            raise Unrecognised('fmt', 'argument is not an Argument::new_* call at %s' % cs.where())
        m = re.search(r'Argument::<.*>::(\w+)|Argument::(\w+)', a[1])
        ctor = (m.group(1) or m.group(2)) if m else None
        if ctor not in ARG_CTORS:
            raise Unrecognised('fmt', 'unknown argument constructor %s at %s' % (a[1], cs.where()))
        argv.append((ARG_CTORS[ctor], a[2][0], a))
    pieces = []
    for p in parts:
        if p[0] == 'lit':
            pieces.append(p)
        else:
            spec = p[1]
            idx = spec['arg_index']
            if idx >= len(argv):
                raise Unrecognised('fmt', 'placeholder refers to missing argument at %s' % cs.where())
            trait, e, full = argv[idx]
            pieces.append(('arg', trait, spec, e))
    return Fmt(cs, pieces)


LOG_MACROS = ('log', 'info', 'debug', 'trace', 'warn', 'error', '$crate::log')


def fmt_sites(body, include_log=False):
    out = []
    for cs in body.calls:
        if not include_log and any(m in LOG_MACROS for m in cs.macros):
            continue
        if cs.is_('~fmt::Arguments::<.*>::(new|from_str|from_str_nonconst|new_const)$', '~fmt::Arguments::(new|from_str|from_str_nonconst)$'):
            out.append(decode_fmt(body, cs))
    return out


def fmt_of_string_expr(prog, body, e):
    """if `e` is the result of format!(..) (alloc::fmt::format / format_args) return its Fmt."""
    e = peel(e)
    if e[0] == 'call' and re.search(r'fmt::format$|must_use$|format::\{closure|format_inner$', e[1]):
        inner = peel(e[2][0])
        return fmt_of_string_expr(prog, body, inner)
    if e[0] == 'call' and re.search(r'fmt::Arguments::<.*>::(new|from_str|from_str_nonconst)$', e[1]):
        site = e[3]
        b = prog.bodies.get(site[0]) or body
        cs = b.call_at.get(site[1])
        if cs is not None:
            return decode_fmt(b, cs)
    return None


# ------------------------------------------------------------------------------------------
# canonical rendering: a stable, local-free normal form of provenance expressions

_OPS = {'Add': '+', 'Sub': '-', 'Mul': '*', 'Div': '/', 'Rem': '%', 'BitAnd': '&', 'BitOr': '|', 'BitXor': '^',
        'Shl': '<<', 'Shr': '>>', 'Lt': '<', 'Le': '<=', 'Gt': '>', 'Ge': '>=', 'Eq': '==', 'Ne': '!=',
        'AddUnchecked': '+', 'SubUnchecked': '-', 'MulUnchecked': '*', 'ShlUnchecked': '<<', 'ShrUnchecked': '>>'}


def method_name(path):
    p = path
    # strip generic arguments
    depth = 0
    out = []
    for ch in p:
        if ch == '<':
            depth += 1
        elif ch == '>':
            depth -= 1
        elif depth == 0:
            out.append(ch)
    segs = [x for x in ''.join(out).split('::') if x and x != ' as ']
    return segs[-1] if segs else path


def canon(e, keep_casts=True, _d=0, labels=None):
    """canonical string of an expression: refs/derefs and transparent calls are dropped, parameters are
    positional (self, a2, a3..), `(next(I) as Some).0` is each(I), `x?` is x?, calls use the method name."""
    if _d > 40:
        return '…'
    d = _d + 1
    if labels is not None:
        return _canon_l(e, keep_casts, d, labels)
    if not isinstance(e, tuple) or not e:
        return repr(e)
    k = e[0]
    if k in ('ref', 'deref'):
        return canon(e[1], keep_casts, d)
    if k == 'named':
        inner = unname(e)
        if inner[0] in ('int', 'str', 'bool'):
            return canon(inner, keep_casts, d)
        return method_name(e[1])
    if k == 'int':
        return str(e[1])
    if k == 'bool':
        return 'true' if e[1] else 'false'
    if k == 'str':
        return json.dumps(e[1])
    if k == 'bytes':
        return 'b' + json.dumps(e[1].decode('latin1'))
    if k == 'unit':
        return '()'
    if k == 'const':
        return 'const<%s>' % e[2] if e[2] not in ('zst', 'unevaluated') else 'const<%s>' % e[1]
    if k == 'fn':
        return 'fn:' + method_name(e[1])
    if k == 'param':
        return 'self' if (e[2] == 1 and (len(e) > 3 and e[3] == 'self')) else 'a%d' % e[2]
    if k == 'local':
        return '_%d' % e[2]
    if k == 'try':
        c = peel(e[1], calls=False, tries=False)
        if c[0] == 'call' and method_name(c[1]) == 'next' and c[2] and 'Iterator' in c[1]:
            # an element of I.map(f) is f applied to an element of I
            it = peel(c[2][0])
            if it[0] == 'call' and method_name(it[1]) == 'map' and 'Iterator' in it[1] and len(it[2]) == 2 and _CUR_PROG[0] is not None and d < 40:
                clo = peel(it[2][1])
                if clo[0] == 'aggr' and clo[1] == 'closure' and clo[2] in _CUR_PROG[0].bodies:
                    inner = mk_try(('call', c[1], (it[2][0],), c[3] if len(c) > 3 else None))
                    r = subst(_CUR_PROG[0].bodies[clo[2]].ret_expr(), {1: clo, 2: inner})
                    return canon(r, keep_casts, d + 1)
            # an element of I.filter_map(f) is the Some payload of f applied to an element of I
            if it[0] == 'call' and method_name(it[1]) == 'filter_map' and 'Iterator' in it[1] and len(it[2]) == 2 and _CUR_PROG[0] is not None and d < 40:
                clo = peel(it[2][1])
                if clo[0] == 'aggr' and clo[1] == 'closure' and clo[2] in _CUR_PROG[0].bodies:
                    inner = mk_try(('call', c[1], (it[2][0],), c[3] if len(c) > 3 else None))
                    r = mk_try(subst(_CUR_PROG[0].bodies[clo[2]].ret_expr(), {1: clo, 2: inner}))
                    return canon(r, keep_casts, d + 1)
            return 'each(%s)' % canon(c[2][0], keep_casts, d)
        return canon(e[1], keep_casts, d) + '?'
    if k == 'field':
        base = e[1]
        b2 = peel(base, calls=False)
        if e[2] == '0' and b2[0] == 'variant' and b2[2] == 'Some':
            c = peel(b2[1], calls=False)
            if c[0] == 'call' and method_name(c[1]) == 'next' and c[2]:
                return 'each(%s)' % canon(c[2][0], keep_casts, d)
        if b2[0] == 'variant':
            return '%s.%s' % (canon(base, keep_casts, d), e[2])
        return '%s.%s' % (canon(base, keep_casts, d), e[2])
    if k == 'variant':
        return '(%s as %s)' % (canon(e[1], keep_casts, d), e[2])
    if k == 'idx':
        return '%s[%s]' % (canon(e[1], keep_casts, d), canon(e[2], keep_casts, d))
    if k == 'cidx':
        return '%s[%s%d]' % (canon(e[1], keep_casts, d), '-' if e[3] else '', e[2])
    if k == 'subslice':
        return '%s[%d..%s%d]' % (canon(e[1], keep_casts, d), e[2], '-' if e[4] else '', e[3])
    if k == 'discr':
        return 'discr(%s)' % canon(e[1], keep_casts, d)
    if k == 'call':
        name = e[1]
        if e[2] and is_transparent_call(name):
            return canon(e[2][0], keep_casts, d)
        m = method_name(name)
        if m in ('must_use',) and e[2]:
            return canon(e[2][0], keep_casts, d)
        if m == 'index' and len(e[2]) == 2:
            return '%s[%s]' % (canon(e[2][0], keep_casts, d), canon(e[2][1], keep_casts, d))
        # the payload of unwrap()/expect() is the payload `?` or a match would bind (the panic itself is a site of C14)
        if m in ('unwrap', 'expect') and e[2] and re.search(r'(option::Option|result::Result)::<.*>::(unwrap|expect)$', name):
            return canon(mk_try(e[2][0]), keep_casts, d)
        # Entry::or_default() on an integer counter is or_insert(0) (rules that rely on this check the value type)
        if m == 'or_default' and len(e[2]) == 1 and 'Entry' in name:
            return 'or_insert(%s, 0)' % canon(e[2][0], keep_casts, d)
        # format!("{}", x) is x.to_string() (ToString is implemented through Display)
        if m == 'format' and len(e[2]) == 1:
            a = peel(e[2][0], calls=False)
            if a[0] == 'call' and method_name(a[1]) == 'new' and 'Arguments' in a[1] and len(a[2]) == 2:
                tb, arr = peel(a[2][0]), peel(a[2][1])
                if tb[0] == 'bytes' and tb[1] == b'\xc0\x00' and arr[0] == 'aggr' and arr[1] == 'array' and len(arr[3]) == 1:
                    one = peel(arr[3][0][1], calls=False)
                    if one[0] == 'call' and method_name(one[1]) == 'new_display' and one[2]:
                        return canon(('call', 'std::string::ToString::to_string', (one[2][0],), e[3] if len(e) > 3 else None), keep_casts, d)
        # equivalent spellings of a floored subtraction on unsigned integers
        if m in ('unwrap_or_default', 'unwrap_or') and e[2]:
            inner = peel(e[2][0], calls=False)
            if inner[0] == 'call' and method_name(inner[1]) == 'checked_sub' and len(inner[2]) == 2 and \
                    (m == 'unwrap_or_default' or (len(e[2]) == 2 and int_value(e[2][1]) == 0)):
                return 'saturating_sub(%s, %s)' % (canon(inner[2][0], keep_casts, d), canon(inner[2][1], keep_casts, d))
        return '%s(%s)' % (m, ', '.join(canon(a, keep_casts, d) for a in e[2]))
    if k == 'bin':
        op = _OPS.get(e[1], e[1])
        return '(%s %s %s)' % (canon(e[2], keep_casts, d), op, canon(e[3], keep_casts, d))
    if k == 'un':
        return '%s(%s)' % (e[1], canon(e[2], keep_casts, d))
    if k == 'cast':
        if keep_casts:
            return '(%s as %s)' % (canon(e[2], keep_casts, d), e[3])
        return canon(e[2], keep_casts, d)
    if k == 'aggr':
        if e[1] == 'tuple':
            return '(%s)' % ', '.join(canon(v, keep_casts, d) for _, v in e[3])
        if e[1] == 'array':
            return '[%s]' % ', '.join(canon(v, keep_casts, d) for _, v in e[3])
        if e[1] == 'closure':
            return 'closure:%s' % e[2].split('::')[-1]
        nm = '::'.join(e[2].split('::')[-2:]) if e[1] == 'adt' else e[2]
        if e[1] == 'adt' and e[2].endswith('ops::RangeTo::RangeTo') and len(e[3]) == 1:
            # ..n is 0..n
            return 'Range::Range{start: 0, end: %s}' % canon(e[3][0][1], keep_casts, d)
        return '%s{%s}' % (nm, ', '.join('%s: %s' % (n2, canon(v, keep_casts, d)) for n2, v in e[3]))
    if k == 'phi':
        # accumulator idiom: phi(0, loopvar + X) is a sum over the enclosing loop
        if len(e[1]) == 2:
            z = [x for x in e[1] if int_value(x) == 0]
            a = [x for x in e[1] if x[0] == 'bin' and x[1] in ('Add', 'AddUnchecked') and (x[2][0] == 'cyc' or x[3][0] == 'cyc')]
            if len(z) == 1 and len(a) == 1:
                term = a[0][3] if a[0][2][0] == 'cyc' else a[0][2]
                return 'sum(%s)' % canon(term, keep_casts, d)
        return 'phi(%s)' % ' | '.join(sorted(canon(x, keep_casts, d) for x in e[1]))
    if k == 'cyc':
        return 'loopvar'
    if k == 'ovf':
        return 'ovf(%s)' % canon(e[1], keep_casts, d)
    if k == 'unknown':
        return '?<%s>' % e[1]
    return repr(e)


def _canon_l(e, keep_casts, d, labels):
    """canon() with call-site labels: calls whose site is in `labels` are rendered name#label(...)"""
    import functools
    global canon
    orig = canon

    def wrapped(x, kc=True, _d=0, labels=None):
        if isinstance(x, tuple) and x and x[0] == 'call' and len(x) > 3 and x[3] in _LBL[0]:
            m = method_name(x[1])
            if x[2] and is_transparent_call(x[1]):
                return orig(x, kc, _d)
            return '%s#%s(%s)' % (m, _LBL[0][x[3]], ', '.join(wrapped(a, kc, _d + 1) for a in x[2]))
        return orig(x, kc, _d)
    _LBL.insert(0, labels)
    canon = wrapped
    try:
        return wrapped(e, keep_casts, d)
    finally:
        canon = orig
        _LBL.pop(0)


_LBL = []


# ------------------------------------------------------------------------------------------
# CFG-level inlining of crate-local helper functions that did not exist on the pinned tree.
# Extracting a helper function is the most common behaviour-preserving refactoring; inlining such helpers back
# (at the MIR level) lets every rule see one merged body, so the verdict does not depend on whether a piece
# of code sits in the function itself or in a private helper it calls.

import copy as _copy
import os as _os


def load_known_functions():
    p = _os.path.join(_os.path.dirname(_os.path.abspath(__file__)), 'known_functions.txt')
    try:
        with open(p) as f:
            return set(x.strip() for x in f if x.strip())
    except OSError:
        return None


def load_known_signatures():
    p = _os.path.join(_os.path.dirname(_os.path.abspath(__file__)), 'known_signatures.json')
    try:
        with open(p) as f:
            return json.load(f)
    except (OSError, ValueError):
        return {}


def detect_renames(facts, known, sigs):
    """{current path: pinned path} for functions that were renamed or moved: a pinned function that no longer
    exists and exactly one new function with the same signature in the same impl/module (or with the same name
    in another module)"""
    if not known or not sigs:
        return {}
    cur = {}
    for b in facts['bodies']:
        if b.get('kind') in ('Fn', 'AssocFn'):
            n = b['arg_count']
            cur[b['path']] = {'args': [l['ty'] for l in b['locals'][1:1 + n]], 'ret': b['locals'][0]['ty'],
                              'callees': set((blk['term'].get('func', {}).get('fn', {}) or {}).get('path', '') for blk in b['blocks'] if blk['term'] and blk['term']['k'] == 'call') - {''}}
    missing = [p2 for p2 in sigs if p2 not in cur and not p2.startswith('<')]
    fresh = [q for q in cur if q not in known and not q.startswith('<')]
    out = {}
    taken = set()
    for p2 in sorted(missing):
        par, nm = p2.rsplit('::', 1) if '::' in p2 else ('', p2)
        def same_sig(q):
            return cur[q]['args'] == sigs[p2]['args'] and cur[q]['ret'] == sigs[p2]['ret']

        def similarity(q):
            a, b2 = cur[q]['callees'], set(sigs[p2].get('callees', []))
            return len(a & b2) / float(len(a | b2)) if (a | b2) else 1.0
        same_parent = [q for q in fresh if q not in taken and same_sig(q) and (q.rsplit('::', 1)[0] if '::' in q else '') == par]
        same_name = [q for q in fresh if q not in taken and same_sig(q) and q.rsplit('::', 1)[-1] == nm]
        cand = same_parent if len(same_parent) == 1 else (same_name if len(same_name) == 1 and not same_parent else [])
        if not cand and len(same_parent) > 1:
            # several new functions with this signature: take the one whose callee set is clearly the closest
            ranked = sorted(same_parent, key=similarity, reverse=True)
            if similarity(ranked[0]) >= 0.5 and similarity(ranked[0]) > similarity(ranked[1]):
                cand = [ranked[0]]
        if len(cand) == 1:
            out[cand[0]] = p2
            taken.add(cand[0])
    return out


def apply_renames(facts, ren):
    """rewrite every occurrence of a renamed path (bodies, call targets, closures nested under it) in the facts"""
    if not ren:
        return facts
    txt = json.dumps(facts)
    for q, p2 in sorted(ren.items(), key=lambda kv: -len(kv[0])):
        qe = json.dumps(q)[1:-1]
        pe = json.dumps(p2)[1:-1]
        txt = re.sub(re.escape(qe) + r'(?![A-Za-z0-9_])', lambda m, pe=pe: pe, txt)
    return json.loads(txt)


def load_known_structs():
    p = _os.path.join(_os.path.dirname(_os.path.abspath(__file__)), 'known_structs.json')
    try:
        with open(p) as f:
            return json.load(f)
    except (OSError, ValueError):
        return {}


def _adt_sig(a):
    self_name = a['path']
    return json.dumps([a.get('kind'), [[v['name'] if v['name'] != self_name.rsplit('::', 1)[-1] else '$self', [[fl['name'], fl['ty'].replace(self_name, '$self')] for fl in v['fields']]] for v in a['variants']]])


def detect_adt_renames(facts):
    """{current type path: pinned type path} for crate types that were renamed or moved: a pinned type that no longer
    exists and exactly one new type with the same kind, variants and fields"""
    p = _os.path.join(_os.path.dirname(_os.path.abspath(__file__)), 'known_adts.json')
    try:
        with open(p) as f:
            pinned = json.load(f)
    except (OSError, ValueError):
        return {}
    cur = {a['path']: _adt_sig(a) for a in facts.get('adts', [])}
    missing = [q for q in pinned if q not in cur]
    fresh = [q for q in cur if q not in pinned]
    out = {}
    for old in sorted(missing):
        cands = [q for q in fresh if cur[q] == pinned[old] and q not in out]
        if len(cands) > 1:
            same_mod = [q for q in cands if q.rsplit('::', 1)[0] == old.rsplit('::', 1)[0]]
            cands = same_mod if len(same_mod) == 1 else cands
        if len(cands) == 1:
            out[cands[0]] = old
    return out


def detect_field_renames(facts, pinned):
    """{struct path: {current field name: pinned field name}} for crate structs in which a field kept its type and
    position but changed its name (a field that merely moved keeps its name and is left alone)"""
    out = {}
    for a in facts.get('adts', []):
        old = pinned.get(a['path'])
        if not old or a.get('kind') != 'Struct' or len(a['variants']) != 1:
            continue
        cur = [(fl['name'], fl['ty']) for fl in a['variants'][0]['fields']]
        old_names = [n for n, _ in old]
        cur_names = [n for n, _ in cur]
        gone = [n for n in old_names if n not in cur_names]
        new = [n for n in cur_names if n not in old_names]
        if not gone or len(gone) != len(new):
            continue
        m = {}
        for n in new:
            i = cur_names.index(n)
            ty = cur[i][1]
            # same position, else the unique vanished field of that type
            if i < len(old) and old[i][0] in gone and old[i][1] == ty:
                m[n] = old[i][0]
            else:
                cands = [g for g in gone if dict(map(tuple, old))[g] == ty and g not in m.values()]
                if len(cands) == 1:
                    m[n] = cands[0]
        if len(m) == len(new) and len(set(m.values())) == len(m):
            out[a['path']] = m
    return out


def apply_field_renames(facts, fren):
    if not fren:
        return facts

    def walk_fix(x):
        if isinstance(x, dict):
            if x.get('k') == 'field' and x.get('of') in fren and x.get('name') in fren[x['of']]:
                x['name'] = fren[x['of']][x['name']]
            if x.get('k') == 'aggr' and x.get('akind') == 'adt' and x.get('adt') in fren and 'fields' in x:
                x['fields'] = [fren[x['adt']].get(n, n) for n in x['fields']]
            for v in x.values():
                walk_fix(v)
        elif isinstance(x, list):
            for v in x:
                walk_fix(v)
    walk_fix(facts['bodies'])
    for a in facts.get('adts', []):
        if a['path'] in fren:
            for fl in a['variants'][0]['fields']:
                fl['name'] = fren[a['path']].get(fl['name'], fl['name'])
    return facts


def _call_target_path(term):
    f = term.get('func')
    if not f or f.get('k') != 'const' or 'fn' not in f:
        return None
    fn = f['fn']
    r = fn.get('resolved')
    if r and r.get('kind') == 'virtual':
        return None
    if r and r.get('local'):
        return r['path']
    if fn.get('local'):
        return fn['path']
    return None


def _shift_place(p, lo):
    q = dict(p)
    q['l'] = p['l'] + lo
    q['p'] = [dict(e, local=e['local'] + lo) if e.get('k') == 'index' else e for e in p['p']]
    return q


_PROMO_OFF = [0]


def _shift_op(o, lo):
    if o.get('k') in ('copy', 'move'):
        return dict(o, place=_shift_place(o['place'], lo))
    if o.get('k') == 'const' and 'promoted' in o and _PROMO_OFF[0]:
        return dict(o, promoted=o['promoted'] + _PROMO_OFF[0])
    return o


def _merge_promoted(raw, callee):
    """append the callee's promoted constants to the caller's table; copied operands are re-indexed by _shift_op"""
    raw.setdefault('promoted', [])
    _PROMO_OFF[0] = len(raw['promoted']) if callee.get('promoted') else 0
    if callee.get('promoted'):
        raw['promoted'].extend(_copy.deepcopy(callee['promoted']))


def _shift_rv(rv, lo):
    r = dict(rv)
    for k in ('op', 'a', 'b'):
        if k in r and isinstance(r[k], dict):
            r[k] = _shift_op(r[k], lo)
    if 'place' in r:
        r['place'] = _shift_place(r['place'], lo)
    if 'ops' in r:
        r['ops'] = [_shift_op(o, lo) for o in r['ops']]
    return r


def _shift_block(blk, lo, bo, ret_local, dest, target):
    nb = {'stmts': [], 'term': None}
    if blk.get('cleanup'):
        nb['cleanup'] = True
    for s in blk['stmts']:
        if s['k'] == 'assign':
            nb['stmts'].append(dict(s, place=_shift_place(s['place'], lo), rv=_shift_rv(s['rv'], lo)))
        elif s['k'] == 'setdiscr':
            nb['stmts'].append(dict(s, place=_shift_place(s['place'], lo)))
        else:
            nb['stmts'].append(s)
    t = dict(blk['term'])
    k = t['k']
    if k == 'return':
        # hand the return value to the caller's destination and continue there
        span = t.get('span', {})
        nb['stmts'].append({'k': 'assign', 'place': dest,
                            'rv': {'k': 'use', 'op': {'k': 'move', 'place': {'l': ret_local, 'p': [], 'ty': dest.get('ty', '')}}},
                            'span': span})
        if target is None:
            t = {'k': 'unreachable', 'span': span}
        else:
            t = {'k': 'goto', 'target': target, 'span': span}
        nb['term'] = t
        return nb
    for key in ('target', 'otherwise', 'cleanup'):
        if key in t and isinstance(t[key], int):
            t[key] = t[key] + bo
    if k == 'switch':
        t['arms'] = [[v, bb + bo] for v, bb in t['arms']]
        t['discr'] = _shift_op(t['discr'], lo)
    elif k == 'call':
        t['func'] = _shift_op(t['func'], lo)
        t['args'] = [_shift_op(a, lo) for a in t['args']]
        t['dest'] = _shift_place(t['dest'], lo)
    elif k == 'assert':
        t['cond'] = _shift_op(t['cond'], lo)
        t['ops'] = [_shift_op(o, lo) for o in t['ops']]
    elif k == 'drop':
        t['place'] = _shift_place(t['place'], lo)
    nb['term'] = t
    return nb


def inline_helpers(raw_by_path, known, max_rounds=6):
    """returns (new_raw_by_path, inlined_paths): every call to a crate-local, non-closure body whose path is not in
    `known` is replaced by a copy of the callee's CFG (transitively, non-recursively)."""
    if not known:
        return raw_by_path, set()
    helpers = {p for p, r in raw_by_path.items() if p not in known and r.get('kind') in ('Fn', 'AssocFn')}
    if not helpers:
        return raw_by_path, set()
    out = {}
    used = set()
    for path, raw in raw_by_path.items():
        cur = raw
        stack_guard = 0
        changed = True
        rounds = 0
        while changed and rounds < max_rounds:
            changed = False
            rounds += 1
            for bi, blk in enumerate(cur['blocks']):
                t = blk['term']
                if t['k'] != 'call':
                    continue
                tp = _call_target_path(t)
                if tp is None or tp not in helpers or tp == path:
                    continue
                callee = raw_by_path[tp]
                if len(t['args']) != callee['arg_count']:
                    continue
                if cur is raw:
                    cur = _copy.deepcopy(raw)
                    blk = cur['blocks'][bi]
                    t = blk['term']
                lo = len(cur['locals'])
                bo = len(cur['blocks'])
                cur['locals'].extend(_copy.deepcopy(callee['locals']))
                for d in callee.get('debug', []):
                    v = d['val']
                    if 'l' in v:
                        cur['debug'].append({'name': d['name'], 'val': _shift_place(v, lo), 'arg': None})
                # parameter passing
                span = t.get('span', {})
                for i, a in enumerate(t['args']):
                    pl = {'l': lo + 1 + i, 'p': [], 'ty': callee['locals'][1 + i]['ty']}
                    blk['stmts'].append({'k': 'assign', 'place': pl, 'rv': {'k': 'use', 'op': a}, 'span': span})
                dest, target = t['dest'], t['target']
                _merge_promoted(cur, callee)
                for cb in callee['blocks']:
                    cur['blocks'].append(_shift_block(cb, lo, bo, lo, dest, target))
                _PROMO_OFF[0] = 0
                blk['term'] = {'k': 'goto', 'target': bo, 'span': span}
                used.add(tp)
                changed = True
                break
        if cur is not raw:
            thread_known_variants(cur)
            thread_bool_constants(cur)
        out[path] = cur
    return out, used


def thread_all(raw_by_path):
    """`let flag = match x { A => true, B => <test> }; if flag {..}` written in place gets the same bool threading as
    spliced code"""
    out = {}
    for path, raw in raw_by_path.items():
        if _has_bool_join(raw):
            cur = _copy.deepcopy(raw)
            if thread_bool_constants(cur):
                out[path] = cur
                continue
        out[path] = raw
    return out


def _has_bool_join(raw):
    """cheap pre-test: some block ends in goto after assigning a bool constant to a whole local"""
    for b in raw['blocks']:
        if b.get('cleanup') or not b['stmts'] or b['term']['k'] != 'goto':
            continue
        last = b['stmts'][-1]
        if last['k'] == 'assign' and not last['place']['p'] and last['rv']['k'] == 'use' and last['rv']['op'].get('k') == 'const' and \
                isinstance(last['rv']['op'].get('val'), dict) and 'bool' in last['rv']['op']['val']:
            return True
    return False


# ------------------------------------------------------------------------------------------
# Jump threading for freshly built enum values (after inlining): a helper that returns `Err(x)` and is called
# with `?` produces  r = Err(x); goto J; J: b = Try::branch(r); d = discriminant(b); switch d.  The join at J
# forgets under which condition r was built. Threading duplicates the short chain per predecessor and resolves
# the switch, so each path keeps its own guards (this is plain constant propagation of the discriminant).

_VARIANT_INDEX = {'Ok': 0, 'Err': 1, 'None': 0, 'Some': 1, 'Continue': 0, 'Break': 1}


def _is_from_residual(t):
    f = t['func']
    return f.get('k') == 'const' and 'fn' in f and f['fn']['path'].endswith('FromResidual::from_residual') and 'result::Result<' in f['fn'].get('full', '')


def _is_try_branch(t):
    if t['k'] != 'call':
        return False
    f = t['func']
    return f.get('k') == 'const' and 'fn' in f and f['fn']['path'].endswith('Try::branch')


def thread_known_variants(raw, max_chain=16, max_rounds=40):
    blocks = raw['blocks']
    changed_any = False
    for _ in range(max_rounds):
        changed = False
        npred = {}
        for b in blocks:
            t = b['term']
            if b.get('cleanup'):
                continue
            for tgt in _targets_of(t):
                npred[tgt] = npred.get(tgt, 0) + 1
        for pi, P in enumerate(blocks):
            is_fr = P['term']['k'] == 'call' and _is_from_residual(P['term']) and not P['term']['dest']['p'] and P['term'].get('target') is not None
            if P.get('cleanup') or (P['term']['k'] not in ('goto', 'drop') and not is_fr):
                continue
            # last whole-local aggregate assignment of an enum variant in P
            known = {}
            for s in P['stmts']:
                if s['k'] == 'assign' and not s['place']['p']:
                    rv = s['rv']
                    if rv['k'] == 'aggr' and rv.get('akind') == 'adt' and rv.get('variant') in _VARIANT_INDEX and \
                            re.search(r'(result::Result|option::Option|ops::ControlFlow)$', rv.get('adt', '')):
                        known[s['place']['l']] = (rv['variant'], rv['ops'][0] if rv['ops'] else None, rv)
                    elif rv['k'] == 'use' and rv['op'].get('k') == 'move' and not rv['op']['place']['p'] and rv['op']['place']['l'] in known:
                        known[s['place']['l']] = known[rv['op']['place']['l']]
                    else:
                        known.pop(s['place']['l'], None)
            if is_fr:
                # `return Err(From::from(e))` of an inlined helper: the value is an Err whatever its payload
                known = {P['term']['dest']['l']: ('Err', None, None)}
            if not known:
                continue
            chain = []
            cur = P['term']['target']
            resolved = None
            last_res = 0
            kn = dict(known)
            new_stmts_per_block = []
            while len(chain) < max_chain:
                B = blocks[cur]
                if B.get('cleanup'):
                    break
                stmts = []
                ok = True
                discr_of = {}
                for s in B['stmts']:
                    if s['k'] != 'assign':
                        stmts.append(s)
                        continue
                    rv = s['rv']
                    pl = s['place']
                    if rv['k'] == 'use' and rv['op'].get('k') in ('move', 'copy') and not rv['op']['place']['p'] and rv['op']['place']['l'] in kn and not pl['p']:
                        kn[pl['l']] = kn[rv['op']['place']['l']]
                    elif rv['k'] == 'use' and rv['op'].get('k') in ('move', 'copy') and not pl['p'] and len(rv['op']['place']['p']) == 2 and \
                            rv['op']['place']['p'][0].get('k') == 'downcast' and rv['op']['place']['p'][1].get('k') == 'field' and \
                            rv['op']['place']['l'] in kn and kn[rv['op']['place']['l']][0] == rv['op']['place']['p'][0].get('variant') and \
                            kn[rv['op']['place']['l']][1] is not None and _plain_local(kn[rv['op']['place']['l']][1]) and \
                            kn[rv['op']['place']['l']][1]['place']['l'] in kn:
                        # x = (r as Ok).0 where r = Ok(move s) and s is itself a freshly built Some(..)/None/Ok(..)
                        kn[pl['l']] = kn[kn[rv['op']['place']['l']][1]['place']['l']]
                    elif rv['k'] == 'discr' and not rv['place']['p'] and rv['place']['l'] in kn and not pl['p']:
                        discr_of[pl['l']] = _VARIANT_INDEX[kn[rv['place']['l']][0]]
                    elif not pl['p']:
                        kn.pop(pl['l'], None)
                    stmts.append(s)
                t = B['term']
                if t['k'] == 'goto':
                    chain.append((cur, stmts, None))
                    cur = t['target']
                    continue
                if t['k'] == 'drop' and not (not t['place']['p'] and t['place']['l'] in kn):
                    chain.append((cur, stmts, None, t))
                    cur = t['target']
                    continue
                if _is_try_branch(t) and t['args'] and t['args'][0].get('k') == 'move' and not t['args'][0]['place']['p'] \
                        and t['args'][0]['place']['l'] in kn and not t['dest']['p'] and t['target'] is not None:
                    var, payload, rv0 = kn[t['args'][0]['place']['l']]
                    span = t.get('span', {})
                    if var in ('Ok', 'Some'):
                        st = {'k': 'assign', 'place': t['dest'], 'span': span,
                              'rv': {'k': 'aggr', 'akind': 'adt', 'adt': 'std::ops::ControlFlow', 'adt_full': 'std::ops::ControlFlow', 'variant': 'Continue',
                                     'fields': ['0'], 'ops': [payload] if payload is not None else []}}
                        kn[t['dest']['l']] = ('Continue', payload, None)
                        chain.append((cur, stmts + [st], None))
                    else:
                        # residual = the Err/None value itself (Result<Infallible, E> / Option<Infallible>)
                        tmp = len(raw['locals'])
                        raw['locals'].append({'ty': 'residual'})
                        if rv0 is None:
                            rv1 = {'k': 'use', 'op': {'k': 'move', 'place': dict(t['args'][0]['place'])}}
                        else:
                            rv1 = dict(rv0)
                        st1 = {'k': 'assign', 'place': {'l': tmp, 'p': [], 'ty': 'residual'}, 'span': span, 'rv': rv1}
                        st2 = {'k': 'assign', 'place': t['dest'], 'span': span,
                               'rv': {'k': 'aggr', 'akind': 'adt', 'adt': 'std::ops::ControlFlow', 'adt_full': 'std::ops::ControlFlow', 'variant': 'Break',
                                      'fields': ['0'], 'ops': [{'k': 'move', 'place': {'l': tmp, 'p': [], 'ty': 'residual'}}]}}
                        kn[t['dest']['l']] = ('Break', None, None)
                        chain.append((cur, stmts + [st1, st2], None))
                    cur = t['target']
                    continue
                if t['k'] == 'switch' and t['discr'].get('k') in ('move', 'copy') and not t['discr']['place']['p'] and t['discr']['place']['l'] in discr_of:
                    val = discr_of[t['discr']['place']['l']]
                    tgt = None
                    for v, bb in t['arms']:
                        if int(v) == val:
                            tgt = bb
                    if tgt is None:
                        tgt = t['otherwise']
                    chain.append((cur, stmts, tgt))
                    resolved = tgt
                    last_res = len(chain)
                    # keep walking: a nested value (Ok(Some(x))) is tested again further on
                    cur = tgt
                    continue
                break
            if resolved is None or not chain:
                continue
            chain = chain[:last_res]
            # materialise private copies of the chain for P
            first_new = len(blocks)
            for ci, item in enumerate(chain):
                bidx, stmts, tgt = item[0], item[1], item[2]
                nb = {'stmts': _copy.deepcopy(stmts)}
                span = blocks[bidx]['term'].get('span', {})
                nxt = first_new + ci + 1 if ci + 1 < len(chain) else tgt
                if len(item) > 3:
                    nb['term'] = dict(item[3], target=nxt)
                else:
                    nb['term'] = {'k': 'goto', 'target': nxt, 'span': span}
                blocks.append(nb)
            P['term'] = dict(P['term'], target=first_new)
            changed = True
            changed_any = True
            break
        if not changed:
            break
    if changed_any:
        _prune_unreachable(raw)
    return changed_any


def _prune_unreachable(raw):
    """blocks that lost their last predecessor through threading become empty dead blocks (kept so that block
    indices stay stable)"""
    blocks = raw['blocks']
    seen = {0}
    work = [0]
    while work:
        b = work.pop()
        t = blocks[b]['term']
        nxt = list(_targets_of(t))
        u = t.get('unwind')
        if isinstance(u, int):
            nxt.append(u)
        if isinstance(t.get('cleanup'), int):
            nxt.append(t['cleanup'])
        for n in nxt:
            if n is not None and n not in seen:
                seen.add(n)
                work.append(n)
    for i, b in enumerate(blocks):
        if i not in seen and not b.get('cleanup'):
            b['stmts'] = []
            b['term'] = {'k': 'unreachable', 'span': b['term'].get('span', {})}
            b['cleanup'] = True
            b['dead'] = True


def _contradicts(facts, new):
    for n in new:
        if n[0] == 'is' and n[2] == ():
            return True
        if n[0] == 'is':
            for f in facts:
                if f[0] == 'is' and f[1] == n[1] and not set(f[2]) & set(n[2]):
                    return True
        elif n[0] == 'cond':
            if ('cond', n[1], not n[2]) in facts:
                return True
    return False


def _targets_of(t):
    k = t['k']
    if k == 'goto':
        return [t['target']]
    if k == 'switch':
        return [bb for _, bb in t['arms']] + [t['otherwise']]
    if k in ('call', 'assert', 'drop'):
        return [t['target']] if t.get('target') is not None else []
    return []


# ------------------------------------------------------------------------------------------
# Expansion of closure-taking std combinators into plain control flow (before helper inlining).
#   it.for_each(f)            ==  for x in it { f(x) }
#   it.map(g).for_each(f)     ==  for x in it { f(g(x)) }          (map/filter adaptors directly feeding a consumer)
#   it.try_for_each(f)        ==  for x in it { f(x)? }  Ok(())
#   it.all(p) / it.any(p)     ==  the short-circuiting loop
#   opt.is_some_and(p)        ==  match opt { Some(x) => p(x), None => false }
#   opt.map_or(d, f)          ==  match opt { Some(x) => f(x), None => d }
# These are the definitions in core. With the closure bodies spliced in, a rule sees the same CFG, guards and
# provenance whether the code is written with a loop/match or with the combinator.

_ITER_CONSUMERS = {'std::iter::Iterator::for_each': 'for_each', 'std::iter::Iterator::try_for_each': 'try_for_each',
                   'std::iter::Iterator::all': 'all', 'std::iter::Iterator::any': 'any', 'std::iter::Iterator::fold': 'fold'}
_OPT_COMBINATORS = {'std::option::Option::<T>::is_some_and': 'is_some_and', 'std::option::Option::<T>::map_or': 'map_or',
                    'std::option::Option::<T>::map': 'option_map', 'std::result::Result::<T, E>::map': 'result_map',
                    'std::option::Option::<T>::filter': 'option_filter', 'std::option::Option::<T>::is_none_or': 'is_none_or',
                    'std::result::Result::<T, E>::unwrap_or_else': 'result_unwrap_or_else', 'std::option::Option::<T>::unwrap_or_else': 'option_unwrap_or_else',
                    'core::bool::<impl bool>::then': 'bool_then'}
#   b.then(f) == if b { Some(f()) } else { None }
#   opt.is_none_or(p) == match opt { Some(x) => p(x), None => true }
#   res.unwrap_or_else(f) == match res { Ok(x) => x, Err(e) => f(e) };  opt.unwrap_or_else(f) == match opt { Some(x) => x, None => f() }
#   it.fold(init, f) == { let mut acc = init; for x in it { acc = f(acc, x) } acc }
#   opt.filter(p)  == match opt { Some(x) if p(&x) => Some(x), _ => None }
#   opt.transpose() (Option<Result<T, E>>) == match opt { Some(Ok(x)) => Ok(Some(x)), Some(Err(e)) => Err(e), None => Ok(None) }
_TRANSPOSE = 'std::option::Option::<std::result::Result<T, E>>::transpose'
_ITER_ADAPTORS = {'std::iter::Iterator::map': 'map', 'std::iter::Iterator::filter': 'filter'}
#   m.entry(k).and_modify(f).or_insert(v)  ==  match m.get_mut(&k) { Some(x) => f(x), None => { m.insert(k, v); } }
_ENTRY_MODIFY = re.compile(r'^std::collections::(hash_map|btree_map)::Entry::<.*>::and_modify$')


def _patch_fn(func, old, new, impl_self=None):
    f = _copy.deepcopy(func)
    fn = f['fn']
    for k in ('path', 'full'):
        fn[k] = fn[k].replace(old, new)
    if 'resolved' in fn and fn['resolved']:
        for k in ('path', 'full'):
            fn['resolved'][k] = fn['resolved'][k].replace(old, new)
    return f


def _expand_entry_modify(raw, raw_by_path, bi, used):
    blk = raw['blocks'][bi]
    t = blk['term']
    span = t.get('span', {})
    B = _Builder(raw)
    clos = _closure_defs(raw, raw_by_path)
    if len(t['args']) != 2 or not _plain_local(t['args'][0]) or not _plain_local(t['args'][1]) or t['args'][1]['place']['l'] not in clos or t.get('target') is None:
        return False
    f_local = t['args'][1]['place']['l']
    f_path = clos[f_local]
    cdefs = _call_defs(raw)
    e_local = t['args'][0]['place']['l']
    if e_local not in cdefs:
        return False
    ebi, et = cdefs[e_local]
    if not re.search(r'(HashMap|BTreeMap)::<.*>::entry$', _fn_path(et) or '') or len(et['args']) != 2 or not _plain_local(et['args'][0]) or et.get('target') is None:
        return False
    am_dest = t['dest']
    if am_dest['p']:
        return False
    # the or_insert that consumes the modified entry
    obi = None
    for i2, b2 in enumerate(raw['blocks']):
        t2 = b2['term']
        if t2 and t2['k'] == 'call' and t2['args'] and _plain_local(t2['args'][0]) and t2['args'][0]['place']['l'] == am_dest['l']:
            if obi is not None:
                return False
            obi = i2
    if obi is None:
        return False
    ot = raw['blocks'][obi]['term']
    if not re.search(r'Entry::<.*>::or_insert$', _fn_path(ot) or '') or len(ot['args']) != 2 or ot.get('target') is None or ot['dest']['p']:
        return False
    # the reference returned by or_insert must be unused
    od = {ot['dest']['l']}
    for i2, b2 in enumerate(raw['blocks']):
        for st in b2['stmts']:
            if st['k'] == 'assign' and _uses_local(st['rv'], od):
                return False
        tt = dict(b2['term'] or {})
        tt.pop('dest', None)
        if _uses_local(tt, od):
            return False
    # recreate the &mut map borrow for the insert
    m_local = et['args'][0]['place']['l']
    mdef = None
    for b2 in raw['blocks']:
        for st in b2['stmts']:
            if st['k'] == 'assign' and not st['place']['p'] and st['place']['l'] == m_local:
                if mdef is not None:
                    return False
                mdef = st
    if mdef is None or mdef['rv']['k'] != 'ref':
        return False
    m_ty = et['args'][0]['place'].get('ty', '')
    k_op = et['args'][1]
    k_ty = k_op.get('place', {}).get('ty', k_op.get('ty', ''))
    v_ty = ot['args'][1].get('place', {}).get('ty', ot['args'][1].get('ty', ''))
    # entry(..) becomes get_mut(&mut m, &k)
    kt = B.local(k_ty)
    kr = B.local('&' + k_ty)
    gm = B.local('std::option::Option<&mut %s>' % v_ty)
    eb = raw['blocks'][ebi]
    eb['stmts'].append(B.assign(B.place(kt, k_ty), {'k': 'use', 'op': k_op if k_op.get('k') != 'move' else dict(k_op, k='copy')}, span))
    eb['stmts'].append(B.assign(B.place(kr, '&' + k_ty), {'k': 'ref', 'mut': False, 'place': B.place(kt, k_ty)}, span))
    eb['term'] = dict(et, func=_patch_fn(et['func'], '::entry', '::get_mut'), args=[et['args'][0], B.mv(kr, '&' + k_ty)],
                      dest=B.place(gm, 'std::option::Option<&mut %s>' % v_ty))
    # and_modify(..) disappears
    blk['term'] = {'k': 'goto', 'target': t['target'], 'span': span}
    # or_insert(..) becomes the match
    ob = raw['blocks'][obi]
    d = B.local('isize')
    x = B.local('&mut ' + v_ty)
    ut = B.local('()')
    stub = B.block([B.assign(B.place(x, '&mut ' + v_ty), {'k': 'use', 'op': B.mv(gm, '&mut ' + v_ty, [{'k': 'downcast', 'variant': 'Some'}, {'k': 'field', 'name': '0', 'idx': 0, 'ty': '&mut ' + v_ty, 'of': 'std::option::Option'}])}, span)], None)
    e = _emit_closure_call(B, raw_by_path, f_local, f_path, [B.mv(x, '&mut ' + v_ty)], B.place(ut, '()'), ot['target'], span)
    if e is None:
        return False
    raw['blocks'][stub]['term'] = {'k': 'goto', 'target': e, 'span': span}
    m2 = B.local(m_ty)
    it = B.local('std::option::Option<%s>' % v_ty)
    ins = B.block([B.assign(B.place(m2, m_ty), _copy.deepcopy(mdef['rv']), span)],
                  dict(ot, func=_patch_fn(et['func'], '::entry', '::insert'), args=[B.mv(m2, m_ty), B.mv(kt, k_ty), ot['args'][1]],
                       dest=B.place(it, 'std::option::Option<%s>' % v_ty)))
    unr = B.block([], {'k': 'unreachable', 'span': span})
    ob['stmts'].append(B.assign(B.place(d, 'isize'), {'k': 'discr', 'place': B.place(gm, ''), 'variants': [[0, 'None'], [1, 'Some']]}, span))
    ob['term'] = {'k': 'switch', 'discr': B.mv(d, 'isize'), 'arms': [[0, ins], [1, stub]], 'otherwise': unr, 'discr_ty': 'isize', 'span': span}
    used.add(f_path)
    return True



class _Builder:
    def __init__(self, raw):
        self.raw = raw

    def local(self, ty):
        self.raw['locals'].append({'ty': ty, 'mut': True, 'synthetic': True})
        return len(self.raw['locals']) - 1

    def block(self, stmts=None, term=None):
        self.raw['blocks'].append({'stmts': stmts or [], 'term': term})
        return len(self.raw['blocks']) - 1

    @staticmethod
    def place(l, ty='', proj=None):
        return {'l': l, 'p': proj or [], 'ty': ty}

    @staticmethod
    def assign(place, rv, span):
        return {'k': 'assign', 'place': place, 'rv': rv, 'span': span}

    @staticmethod
    def mv(l, ty='', proj=None):
        return {'k': 'move', 'place': {'l': l, 'p': proj or [], 'ty': ty}}

    @staticmethod
    def const_bool(v):
        return {'k': 'const', 'ty': 'bool', 'val': {'bool': v}}


def _closure_defs(raw, raw_by_path):
    out = {}
    for blk in raw['blocks']:
        for s in blk['stmts']:
            if s['k'] == 'assign' and not s['place']['p'] and s['rv']['k'] == 'aggr' and s['rv'].get('akind') == 'closure' and s['rv'].get('closure') in raw_by_path:
                l = s['place']['l']
                out[l] = None if l in out else s['rv']['closure']
            elif s['k'] == 'assign' and not s['place']['p'] and s['place']['l'] in out:
                out[s['place']['l']] = None
    return {l: p for l, p in out.items() if p}


def _call_defs(raw):
    """local -> (block index, terminator) for locals defined exactly once, by a call"""
    cnt = {}
    d = {}
    for bi, blk in enumerate(raw['blocks']):
        for s in blk['stmts']:
            if s['k'] == 'assign' and not s['place']['p']:
                cnt[s['place']['l']] = cnt.get(s['place']['l'], 0) + 1
        t = blk['term']
        if t['k'] == 'call' and not t['dest']['p']:
            cnt[t['dest']['l']] = cnt.get(t['dest']['l'], 0) + 1
            d[t['dest']['l']] = (bi, t)
    return {l: v for l, v in d.items() if cnt.get(l) == 1}


def _plain_local(op):
    return op.get('k') in ('move', 'copy') and not op['place']['p']


def _fn_path(t):
    f = t['func']
    if f.get('k') == 'const' and 'fn' in f:
        return f['fn']['path']
    return None


def _emit_closure_call(B, raw_by_path, clo_local, clo_path, arg_ops, dest, target, span):
    """splice a copy of closure `clo_path` called with `arg_ops`; returns the entry block index"""
    raw = B.raw
    callee = raw_by_path[clo_path]
    if len(arg_ops) != callee['arg_count'] - 1:
        return None
    lo = len(raw['locals'])
    raw['locals'].extend(_copy.deepcopy(callee['locals']))
    for d in callee.get('debug', []):
        v = d['val']
        if 'l' in v:
            raw['debug'].append({'name': d['name'], 'val': _shift_place(v, lo), 'arg': None})
    env_ty = callee['locals'][1]['ty']
    clo_ty = raw['locals'][clo_local]['ty']
    if env_ty.startswith('&mut '):
        rv = {'k': 'ref', 'mut': True, 'place': B.place(clo_local, clo_ty)}
    elif env_ty.startswith('&'):
        rv = {'k': 'ref', 'mut': False, 'place': B.place(clo_local, clo_ty)}
    else:
        rv = {'k': 'use', 'op': B.mv(clo_local, clo_ty)}
    stmts = [B.assign(B.place(lo + 1, env_ty), rv, span)]
    for i, a in enumerate(arg_ops):
        stmts.append(B.assign(B.place(lo + 2 + i, callee['locals'][2 + i]['ty']), {'k': 'use', 'op': a}, span))
    entry = B.block(stmts, None)
    bo = len(raw['blocks'])
    _merge_promoted(raw, callee)
    for cb in callee['blocks']:
        raw['blocks'].append(_shift_block(cb, lo, bo, lo, dest, target))
    _PROMO_OFF[0] = 0
    raw['blocks'][entry]['term'] = {'k': 'goto', 'target': bo, 'span': span}
    return entry


def _expand_one(raw, raw_by_path, bi, kind, used):
    blk = raw['blocks'][bi]
    t = blk['term']
    span = t.get('span', {})
    B = _Builder(raw)
    clos = _closure_defs(raw, raw_by_path)
    args = t['args']
    dest, target = t['dest'], t.get('target')
    if target is None or not args or not _plain_local(args[-1]) or args[-1]['place']['l'] not in clos:
        return False
    f_local = args[-1]['place']['l']
    f_path = clos[f_local]
    some0 = lambda ty: [{'k': 'downcast', 'variant': 'Some'}, {'k': 'field', 'name': '0', 'idx': 0, 'ty': ty, 'of': 'std::option::Option'}]
    if kind == 'option_filter':
        if not _plain_local(args[0]):
            return False
        o = args[0]['place']['l']
        oty = args[0]['place'].get('ty', '')
        rty = raw_by_path[f_path]['locals'][2]['ty'] if raw_by_path[f_path]['arg_count'] >= 2 else ''
        item_ty = rty[1:] if rty.startswith('&') else rty
        d = B.local('isize')
        x = B.local(item_ty)
        xr = B.local('&' + item_ty)
        pb = B.local('bool')
        proj = [{'k': 'downcast', 'variant': 'Some'}, {'k': 'field', 'name': '0', 'idx': 0, 'ty': item_ty, 'of': 'std::option::Option'}]
        none_rv = {'k': 'aggr', 'akind': 'adt', 'adt': 'std::option::Option', 'adt_full': dest.get('ty', ''), 'variant': 'None', 'fields': [], 'ops': []}
        nb = B.block([B.assign(dest, none_rv, span)], {'k': 'goto', 'target': target, 'span': span})
        keep = B.block([B.assign(dest, {'k': 'aggr', 'akind': 'adt', 'adt': 'std::option::Option', 'adt_full': dest.get('ty', ''), 'variant': 'Some', 'fields': ['0'],
                                        'ops': [B.mv(x, item_ty)]}, span)], {'k': 'goto', 'target': target, 'span': span})
        test = B.block([], {'k': 'switch', 'discr': B.mv(pb, 'bool'), 'arms': [[0, nb]], 'otherwise': keep, 'discr_ty': 'bool', 'span': span})
        stub = B.block([B.assign(B.place(x, item_ty), {'k': 'use', 'op': B.mv(o, item_ty, proj)}, span),
                        B.assign(B.place(xr, '&' + item_ty), {'k': 'ref', 'mut': False, 'place': B.place(x, item_ty)}, span)], None)
        e = _emit_closure_call(B, raw_by_path, f_local, f_path, [B.mv(xr, '&' + item_ty)], B.place(pb, 'bool'), test, span)
        if e is None:
            return False
        raw['blocks'][stub]['term'] = {'k': 'goto', 'target': e, 'span': span}
        unr = B.block([], {'k': 'unreachable', 'span': span})
        blk['stmts'].append(B.assign(B.place(d, 'isize'), {'k': 'discr', 'place': B.place(o, oty), 'variants': [[0, 'None'], [1, 'Some']]}, span))
        blk['term'] = {'k': 'switch', 'discr': B.mv(d, 'isize'), 'arms': [[0, nb], [1, stub]], 'otherwise': unr, 'discr_ty': 'isize', 'span': span}
        used.add(f_path)
        return True
    if kind in ('option_map', 'result_map'):
        # opt.map(f) == match opt { Some(x) => Some(f(x)), None => None };  res.map(f) == match res { Ok(x) => Ok(f(x)), Err(e) => Err(e) }
        if not _plain_local(args[0]):
            return False
        o = args[0]['place']['l']
        oty = args[0]['place'].get('ty', '')
        good, bad = ('Some', 'None') if kind == 'option_map' else ('Ok', 'Err')
        adt = 'std::option::Option' if kind == 'option_map' else 'std::result::Result'
        variants = [[0, 'None'], [1, 'Some']] if kind == 'option_map' else [[0, 'Ok'], [1, 'Err']]
        item_ty = raw_by_path[f_path]['locals'][2]['ty'] if raw_by_path[f_path]['arg_count'] >= 2 else ''
        yty = raw_by_path[f_path]['locals'][0]['ty']
        d = B.local('isize')
        x = B.local(item_ty)
        y = B.local(yty)
        proj = lambda v, ty: [{'k': 'downcast', 'variant': v}, {'k': 'field', 'name': '0', 'idx': 0, 'ty': ty, 'of': adt}]
        stub = B.block([B.assign(B.place(x, item_ty), {'k': 'use', 'op': B.mv(o, item_ty, proj(good, item_ty))}, span)], None)
        wrap = B.block([B.assign(dest, {'k': 'aggr', 'akind': 'adt', 'adt': adt, 'adt_full': dest.get('ty', ''), 'variant': good, 'fields': ['0'], 'ops': [B.mv(y, yty)]}, span)],
                       {'k': 'goto', 'target': target, 'span': span})
        e = _emit_closure_call(B, raw_by_path, f_local, f_path, [B.mv(x, item_ty)], B.place(y, yty), wrap, span)
        if e is None:
            return False
        raw['blocks'][stub]['term'] = {'k': 'goto', 'target': e, 'span': span}
        if kind == 'option_map':
            brv = {'k': 'aggr', 'akind': 'adt', 'adt': adt, 'adt_full': dest.get('ty', ''), 'variant': 'None', 'fields': [], 'ops': []}
        else:
            brv = {'k': 'aggr', 'akind': 'adt', 'adt': adt, 'adt_full': dest.get('ty', ''), 'variant': 'Err', 'fields': ['0'], 'ops': [B.mv(o, '', proj('Err', ''))]}
        nb = B.block([B.assign(dest, brv, span)], {'k': 'goto', 'target': target, 'span': span})
        unr = B.block([], {'k': 'unreachable', 'span': span})
        blk['stmts'].append(B.assign(B.place(d, 'isize'), {'k': 'discr', 'place': B.place(o, oty), 'variants': variants}, span))
        arms = [[0, nb], [1, stub]] if kind == 'option_map' else [[0, stub], [1, nb]]
        blk['term'] = {'k': 'switch', 'discr': B.mv(d, 'isize'), 'arms': arms, 'otherwise': unr, 'discr_ty': 'isize', 'span': span}
        used.add(f_path)
        return True
    if kind == 'bool_then':
        if args[0].get('k') not in ('move', 'copy'):
            return False
        yty = raw_by_path[f_path]['locals'][0]['ty']
        y = B.local(yty)
        wrap = B.block([B.assign(dest, {'k': 'aggr', 'akind': 'adt', 'adt': 'std::option::Option', 'adt_full': dest.get('ty', ''), 'variant': 'Some', 'fields': ['0'], 'ops': [B.mv(y, yty)]}, span)],
                       {'k': 'goto', 'target': target, 'span': span})
        e = _emit_closure_call(B, raw_by_path, f_local, f_path, [], B.place(y, yty), wrap, span)
        if e is None:
            return False
        nb = B.block([B.assign(dest, {'k': 'aggr', 'akind': 'adt', 'adt': 'std::option::Option', 'adt_full': dest.get('ty', ''), 'variant': 'None', 'fields': [], 'ops': []}, span)],
                     {'k': 'goto', 'target': target, 'span': span})
        blk['term'] = {'k': 'switch', 'discr': args[0], 'arms': [[0, nb]], 'otherwise': e, 'discr_ty': 'bool', 'span': span}
        used.add(f_path)
        return True
    if kind in ('result_unwrap_or_else', 'option_unwrap_or_else'):
        if not _plain_local(args[0]):
            return False
        o = args[0]['place']['l']
        oty = args[0]['place'].get('ty', '')
        isres = kind == 'result_unwrap_or_else'
        adt = 'std::result::Result' if isres else 'std::option::Option'
        variants = [[0, 'Ok'], [1, 'Err']] if isres else [[0, 'None'], [1, 'Some']]
        good = 'Ok' if isres else 'Some'
        d = B.local('isize')
        pj = lambda var, ty: [{'k': 'downcast', 'variant': var}, {'k': 'field', 'name': '0', 'idx': 0, 'ty': ty, 'of': adt}]
        keep = B.block([B.assign(dest, {'k': 'use', 'op': B.mv(o, dest.get('ty', ''), pj(good, dest.get('ty', '')))}, span)], {'k': 'goto', 'target': target, 'span': span})
        if isres:
            ety = raw_by_path[f_path]['locals'][2]['ty'] if raw_by_path[f_path]['arg_count'] >= 2 else ''
            ev = B.local(ety)
            stub = B.block([B.assign(B.place(ev, ety), {'k': 'use', 'op': B.mv(o, ety, pj('Err', ety))}, span)], None)
            e = _emit_closure_call(B, raw_by_path, f_local, f_path, [B.mv(ev, ety)], dest, target, span)
        else:
            stub = B.block([], None)
            e = _emit_closure_call(B, raw_by_path, f_local, f_path, [], dest, target, span)
        if e is None:
            return False
        raw['blocks'][stub]['term'] = {'k': 'goto', 'target': e, 'span': span}
        unr = B.block([], {'k': 'unreachable', 'span': span})
        blk['stmts'].append(B.assign(B.place(d, 'isize'), {'k': 'discr', 'place': B.place(o, oty), 'variants': variants}, span))
        arms = [[0, keep], [1, stub]] if isres else [[0, stub], [1, keep]]
        blk['term'] = {'k': 'switch', 'discr': B.mv(d, 'isize'), 'arms': arms, 'otherwise': unr, 'discr_ty': 'isize', 'span': span}
        used.add(f_path)
        return True
    if kind in ('is_some_and', 'map_or', 'is_none_or'):
        if not _plain_local(args[0]):
            return False
        o = args[0]['place']['l']
        oty = args[0]['place'].get('ty', '')
        item_ty = raw_by_path[f_path]['locals'][2]['ty'] if raw_by_path[f_path]['arg_count'] >= 2 else ''
        d = B.local('isize')
        x = B.local(item_ty)
        some_entry_stub = B.block([B.assign(B.place(x, item_ty), {'k': 'use', 'op': B.mv(o, item_ty, some0(item_ty))}, span)], None)
        e = _emit_closure_call(B, raw_by_path, f_local, f_path, [B.mv(x, item_ty)], dest, target, span)
        if e is None:
            return False
        raw['blocks'][some_entry_stub]['term'] = {'k': 'goto', 'target': e, 'span': span}
        none_op = B.const_bool(False) if kind == 'is_some_and' else (B.const_bool(True) if kind == 'is_none_or' else args[1])
        nb = B.block([B.assign(dest, {'k': 'use', 'op': none_op}, span)], {'k': 'goto', 'target': target, 'span': span})
        unr = B.block([], {'k': 'unreachable', 'span': span})
        blk['stmts'].append(B.assign(B.place(d, 'isize'), {'k': 'discr', 'place': B.place(o, oty), 'variants': [[0, 'None'], [1, 'Some']]}, span))
        blk['term'] = {'k': 'switch', 'discr': B.mv(d, 'isize'), 'arms': [[0, nb], [1, some_entry_stub]], 'otherwise': unr, 'discr_ty': 'isize', 'span': span}
        used.add(f_path)
        return True
    # iterator consumers -------------------------------------------------------------------------------------
    if not _plain_local(args[0]):
        return False
    if kind == 'try_for_each' and not dest.get('ty', '').startswith('std::result::Result<'):
        return False
    cdefs = _call_defs(raw)
    chain = []
    src = args[0]['place']['l']
    dead_calls = []
    for _guard in range(12):
        if src not in cdefs:
            # the adaptor value may have been moved into another local first
            st0 = _single_assign_def(raw, src)
            if st0 is not None and st0['rv']['k'] == 'use' and _plain_local(st0['rv']['op']) and st0['rv']['op'].get('k') == 'move':
                src = st0['rv']['op']['place']['l']
                continue
            break
        cbi, ct = cdefs[src]
        ak = _ITER_ADAPTORS.get(_fn_path(ct))
        if ak is None or len(ct['args']) != 2 or not _plain_local(ct['args'][0]) or not _plain_local(ct['args'][1]) \
                or ct['args'][1]['place']['l'] not in clos or ct.get('target') is None:
            break
        chain.append((ak, ct['args'][1]['place']['l'], clos[ct['args'][1]['place']['l']]))
        dead_calls.append(cbi)
        src = ct['args'][0]['place']['l']
    chain.reverse()   # innermost adaptor first
    src_ty = raw['locals'][src]['ty']
    # the adaptor constructor calls become plain moves (the adaptor value itself is no longer used)
    for cbi in dead_calls:
        ct = raw['blocks'][cbi]['term']
        raw['blocks'][cbi]['stmts'].append(B.assign(ct['dest'], {'k': 'use', 'op': ct['args'][0]}, ct.get('span', span)))
        raw['blocks'][cbi]['term'] = {'k': 'goto', 'target': ct['target'], 'span': ct.get('span', span)}
    first_clo = chain[0][2] if chain else f_path
    item_ty = raw_by_path[first_clo]['locals'][2]['ty'] if raw_by_path[first_clo]['arg_count'] >= 2 else ''
    if chain and chain[0][0] == 'filter' and item_ty.startswith('&'):
        item_ty = item_ty[1:]
    r = B.local('&mut ' + src_ty)
    n = B.local('std::option::Option<%s>' % item_ty)
    d = B.local('isize')
    x = B.local(item_ty)
    head = B.block([B.assign(B.place(r, '&mut ' + src_ty), {'k': 'ref', 'mut': True, 'place': B.place(src, src_ty)}, span)], None)
    head2 = B.block([B.assign(B.place(d, 'isize'), {'k': 'discr', 'place': B.place(n, ''), 'variants': [[0, 'None'], [1, 'Some']]}, span)], None)
    raw['blocks'][head]['term'] = {
        'k': 'call', 'span': span, 'snippet': t.get('snippet'),
        'func': {'k': 'const', 'ty': 'fn', 'fn': {'path': 'std::iter::Iterator::next', 'full': '<%s as std::iter::Iterator>::next' % src_ty, 'args': [src_ty],
                                                'local': False, 'trait': 'std::iter::Iterator', 'method': 'next',
                                                'resolved': {'path': '<%s as std::iter::Iterator>::next' % src_ty, 'full': '<%s as std::iter::Iterator>::next' % src_ty,
                                                             'kind': 'item', 'local': False, 'impl_self': src_ty}}},
        'args': [B.mv(r, '&mut ' + src_ty)], 'dest': B.place(n, 'std::option::Option<%s>' % item_ty), 'target': head2}
    unr = B.block([], {'k': 'unreachable', 'span': span})
    body0 = B.block([B.assign(B.place(x, item_ty), {'k': 'use', 'op': B.mv(n, item_ty, some0(item_ty))}, span)], None)
    # exit block
    if kind == 'fold':
        if len(args) != 3:
            return False
        acc_ty = dest.get('ty', '')
        acc = B.local(acc_ty)
        blk['stmts'].append(B.assign(B.place(acc, acc_ty), {'k': 'use', 'op': args[1]}, span))
        exit_rv = {'k': 'use', 'op': B.mv(acc, acc_ty)}
    elif kind == 'for_each':
        exit_rv = {'k': 'aggr', 'akind': 'tuple', 'ops': [], 'fields': []}
    elif kind == 'try_for_each':
        u = B.local('()')
        exit_rv = None
    elif kind == 'all':
        exit_rv = {'k': 'use', 'op': B.const_bool(True)}
    else:
        exit_rv = {'k': 'use', 'op': B.const_bool(False)}
    if kind == 'try_for_each':
        exit_b = B.block([B.assign(B.place(u, '()'), {'k': 'aggr', 'akind': 'tuple', 'ops': [], 'fields': []}, span),
                          B.assign(dest, {'k': 'aggr', 'akind': 'adt', 'adt': 'std::result::Result', 'adt_full': dest.get('ty', ''), 'variant': 'Ok',
                                          'fields': ['0'], 'ops': [B.mv(u, '()')]}, span)], {'k': 'goto', 'target': target, 'span': span})
    else:
        exit_b = B.block([B.assign(dest, exit_rv, span)], {'k': 'goto', 'target': target, 'span': span})
    raw['blocks'][head2]['term'] = {'k': 'switch', 'discr': B.mv(d, 'isize'), 'arms': [[0, exit_b], [1, body0]], 'otherwise': unr, 'discr_ty': 'isize', 'span': span}
    # adaptor chain
    cur_blk = body0
    cur_item, cur_ty = x, item_ty
    for ak, cl_local, cl_path in chain:
        cal = raw_by_path[cl_path]
        if ak == 'map':
            # return type of the closure = type of its local 0
            yty = cal['locals'][0]['ty']
            y = B.local(yty)
            cont = B.block([], None)
            e = _emit_closure_call(B, raw_by_path, cl_local, cl_path, [B.mv(cur_item, cur_ty)], B.place(y, yty), cont, span)
            if e is None:
                return False
            raw['blocks'][cur_blk]['term'] = {'k': 'goto', 'target': e, 'span': span}
            cur_blk, cur_item, cur_ty = cont, y, yty
        else:
            pr = B.local('&' + cur_ty)
            pb = B.local('bool')
            raw['blocks'][cur_blk]['stmts'].append(B.assign(B.place(pr, '&' + cur_ty), {'k': 'ref', 'mut': False, 'place': B.place(cur_item, cur_ty)}, span))
            test = B.block([], None)
            cont = B.block([], None)
            e = _emit_closure_call(B, raw_by_path, cl_local, cl_path, [B.mv(pr, '&' + cur_ty)], B.place(pb, 'bool'), test, span)
            if e is None:
                return False
            raw['blocks'][cur_blk]['term'] = {'k': 'goto', 'target': e, 'span': span}
            raw['blocks'][test]['term'] = {'k': 'switch', 'discr': B.mv(pb, 'bool'), 'arms': [[0, head]], 'otherwise': cont, 'discr_ty': 'bool', 'span': span}
            cur_blk = cont
        used.add(cl_path)
    # consumer
    if kind == 'fold':
        e = _emit_closure_call(B, raw_by_path, f_local, f_path, [B.mv(acc, acc_ty), B.mv(cur_item, cur_ty)], B.place(acc, acc_ty), head, span)
        if e is None:
            return False
        raw['blocks'][cur_blk]['term'] = {'k': 'goto', 'target': e, 'span': span}
    elif kind == 'for_each':
        ut = B.local('()')
        e = _emit_closure_call(B, raw_by_path, f_local, f_path, [B.mv(cur_item, cur_ty)], B.place(ut, '()'), head, span)
        if e is None:
            return False
        raw['blocks'][cur_blk]['term'] = {'k': 'goto', 'target': e, 'span': span}
    elif kind == 'try_for_each':
        rty = dest.get('ty', '')
        rl = B.local(rty)
        d2 = B.local('isize')
        test = B.block([B.assign(B.place(d2, 'isize'), {'k': 'discr', 'place': B.place(rl, rty), 'variants': [[0, 'Ok'], [1, 'Err']]}, span)], None)
        brk = B.block([B.assign(dest, {'k': 'use', 'op': B.mv(rl, rty)}, span)], {'k': 'goto', 'target': target, 'span': span})
        e = _emit_closure_call(B, raw_by_path, f_local, f_path, [B.mv(cur_item, cur_ty)], B.place(rl, rty), test, span)
        if e is None:
            return False
        raw['blocks'][test]['term'] = {'k': 'switch', 'discr': B.mv(d2, 'isize'), 'arms': [[0, head], [1, brk]], 'otherwise': unr, 'discr_ty': 'isize', 'span': span}
        raw['blocks'][cur_blk]['term'] = {'k': 'goto', 'target': e, 'span': span}
    else:
        pb = B.local('bool')
        test = B.block([], None)
        stop = B.block([B.assign(dest, {'k': 'use', 'op': B.const_bool(kind == 'any')}, span)], {'k': 'goto', 'target': target, 'span': span})
        e = _emit_closure_call(B, raw_by_path, f_local, f_path, [B.mv(cur_item, cur_ty)], B.place(pb, 'bool'), test, span)
        if e is None:
            return False
        if kind == 'all':
            raw['blocks'][test]['term'] = {'k': 'switch', 'discr': B.mv(pb, 'bool'), 'arms': [[0, stop]], 'otherwise': head, 'discr_ty': 'bool', 'span': span}
        else:
            raw['blocks'][test]['term'] = {'k': 'switch', 'discr': B.mv(pb, 'bool'), 'arms': [[0, head]], 'otherwise': stop, 'discr_ty': 'bool', 'span': span}
        raw['blocks'][cur_blk]['term'] = {'k': 'goto', 'target': e, 'span': span}
    blk['term'] = {'k': 'goto', 'target': head, 'span': span}
    used.add(f_path)
    return True


def _expand_transpose(raw, bi):
    blk = raw['blocks'][bi]
    t = blk['term']
    span = t.get('span', {})
    B = _Builder(raw)
    dest, target = t['dest'], t.get('target')
    if target is None or len(t['args']) != 1 or not _plain_local(t['args'][0]):
        return False
    o = t['args'][0]['place']['l']
    oty = t['args'][0]['place'].get('ty', '')
    dty = dest.get('ty', '')
    d = B.local('isize')
    d2 = B.local('isize')
    r = B.local('')
    v = B.local('')
    ev = B.local('')
    sm = B.local('')
    nn = B.local('')
    opt = lambda var, ops: {'k': 'aggr', 'akind': 'adt', 'adt': 'std::option::Option', 'adt_full': '', 'variant': var, 'fields': ['0'] if ops else [], 'ops': ops}
    res = lambda var, ops: {'k': 'aggr', 'akind': 'adt', 'adt': 'std::result::Result', 'adt_full': dty, 'variant': var, 'fields': ['0'], 'ops': ops}
    pj = lambda var, of: [{'k': 'downcast', 'variant': var}, {'k': 'field', 'name': '0', 'idx': 0, 'ty': '', 'of': of}]
    go = {'k': 'goto', 'target': target, 'span': span}
    nb = B.block([B.assign(B.place(nn), opt('None', []), span), B.assign(dest, res('Ok', [B.mv(nn)]), span)], dict(go))
    okb = B.block([B.assign(B.place(v), {'k': 'use', 'op': B.mv(r, '', pj('Ok', 'std::result::Result'))}, span),
                   B.assign(B.place(sm), opt('Some', [B.mv(v)]), span), B.assign(dest, res('Ok', [B.mv(sm)]), span)], dict(go))
    erb = B.block([B.assign(B.place(ev), {'k': 'use', 'op': B.mv(r, '', pj('Err', 'std::result::Result'))}, span),
                   B.assign(dest, res('Err', [B.mv(ev)]), span)], dict(go))
    unr = B.block([], {'k': 'unreachable', 'span': span})
    sb = B.block([B.assign(B.place(r), {'k': 'use', 'op': B.mv(o, '', pj('Some', 'std::option::Option'))}, span),
                  B.assign(B.place(d2, 'isize'), {'k': 'discr', 'place': B.place(r), 'variants': [[0, 'Ok'], [1, 'Err']]}, span)],
                 {'k': 'switch', 'discr': B.mv(d2, 'isize'), 'arms': [[0, okb], [1, erb]], 'otherwise': unr, 'discr_ty': 'isize', 'span': span})
    blk['stmts'].append(B.assign(B.place(d, 'isize'), {'k': 'discr', 'place': B.place(o, oty), 'variants': [[0, 'None'], [1, 'Some']]}, span))
    blk['term'] = {'k': 'switch', 'discr': B.mv(d, 'isize'), 'arms': [[0, nb], [1, sb]], 'otherwise': unr, 'discr_ty': 'isize', 'span': span}
    return True


_FN_TRAIT_CALL = re.compile(r'^std::ops::(Fn::call|FnMut::call_mut|FnOnce::call_once)$')


def _single_assign_def(raw, l):
    d = None
    for blk in raw['blocks']:
        for st in blk['stmts']:
            if st['k'] == 'assign' and not st['place']['p'] and st['place']['l'] == l:
                if d is not None:
                    return None
                d = st
        t = blk['term']
        if t and t['k'] == 'call' and not t['dest']['p'] and t['dest']['l'] == l:
            return None
    return d


def _untuple_args(raw, op):
    """operands of the tuple `op` was built from (the rust-call ABI packs closure arguments in a tuple)"""
    if not _plain_local(op):
        return None
    st = _single_assign_def(raw, op['place']['l'])
    if st is None or st['rv']['k'] != 'aggr' or st['rv'].get('akind') != 'tuple':
        return None
    return list(st['rv']['ops'])


def _callee_value(raw, op, depth=6):
    """what a callable operand is: ('closure', local holding it, path) or ('fn', const operand) — following
    references and whole-local copies"""
    for _ in range(depth):
        if op.get('k') == 'const' and 'fn' in op:
            return ('fn', op)
        if not _plain_local(op):
            return None
        st = _single_assign_def(raw, op['place']['l'])
        if st is None:
            return None
        rv = st['rv']
        if rv['k'] == 'aggr' and rv.get('akind') == 'closure':
            return ('closure', op['place']['l'], rv.get('closure'))
        if rv['k'] == 'ref' and not rv['place']['p']:
            op = {'k': 'copy', 'place': rv['place']}
            continue
        if rv['k'] == 'use':
            op = rv['op']
            continue
        if rv['k'] == 'cast' and str(rv.get('kind', '')).startswith('PointerCoercion'):
            op = rv['op']
            continue
        return None
    return None


def _expand_direct_call(raw, raw_by_path, bi, used):
    """`f(args)` where f is a closure created in this body (or, after a generic helper was inlined, a function item
    passed to it): the call goes through Fn/FnMut/FnOnce; splice the closure body or call the function directly"""
    blk = raw['blocks'][bi]
    t = blk['term']
    span = t.get('span', {})
    if len(t['args']) != 2 or t.get('target') is None:
        return False
    cv = _callee_value(raw, t['args'][0])
    ops = _untuple_args(raw, t['args'][1])
    if cv is None or ops is None:
        return False
    if cv[0] == 'fn':
        fop = cv[1]
        blk['term'] = dict(t, func=fop, args=ops)
        return True
    _, clo_local, clo_path = cv
    if clo_path not in raw_by_path:
        return False
    B = _Builder(raw)
    e = _emit_closure_call(B, raw_by_path, clo_local, clo_path, ops, t['dest'], t['target'], span)
    if e is None:
        return False
    blk['term'] = {'k': 'goto', 'target': e, 'span': span}
    used.add(clo_path)
    return True


def _emit_call(B, raw_by_path, callee, arg_ops, dest, target, span, used):
    """call of a callable value: a closure created in this body (spliced) or a function item (direct call)"""
    if callee[0] == 'closure':
        if callee[2] not in raw_by_path:
            return None
        used.add(callee[2])
        return _emit_closure_call(B, raw_by_path, callee[1], callee[2], arg_ops, dest, target, span)
    return B.block([], {'k': 'call', 'func': callee[1], 'args': arg_ops, 'dest': dest, 'target': target, 'span': span})


_DATA_COMBINATORS = {'std::result::Result::<T, E>::map_err': 'map_err', 'std::result::Result::<T, E>::ok': 'ok',
                     'std::result::Result::<T, E>::map': 'rmap', 'std::option::Option::<T>::map': 'omap'}


def _expand_data_combinator(raw, raw_by_path, bi, kind, used):
    """res.map_err(f) == match res { Ok(x) => Ok(x), Err(e) => Err(f(e)) };  res.ok() == match res { Ok(x) => Some(x), Err(_) => None };
    res.map(f) / opt.map(f) with f a function item (the closure case is handled by _expand_one)"""
    blk = raw['blocks'][bi]
    t = blk['term']
    span = t.get('span', {})
    B = _Builder(raw)
    args, dest, target = t['args'], t['dest'], t.get('target')
    if target is None or not args or not _plain_local(args[0]):
        return False
    callee = None
    if kind != 'ok':
        if len(args) != 2:
            return False
        callee = _callee_value(raw, args[1])
        if callee is None:
            return False
    o = args[0]['place']['l']
    oty = args[0]['place'].get('ty', '')
    is_opt = kind == 'omap'
    adt_in = 'std::option::Option' if is_opt else 'std::result::Result'
    variants = [[0, 'None'], [1, 'Some']] if is_opt else [[0, 'Ok'], [1, 'Err']]
    good_in = 'Some' if is_opt else 'Ok'
    pj = lambda var: [{'k': 'downcast', 'variant': var}, {'k': 'field', 'name': '0', 'idx': 0, 'ty': '', 'of': adt_in}]
    go = {'k': 'goto', 'target': target, 'span': span}
    aggr = lambda adt, var, ops: {'k': 'aggr', 'akind': 'adt', 'adt': adt, 'adt_full': dest.get('ty', ''), 'variant': var, 'fields': ['0'] if ops else [], 'ops': ops}
    d = B.local('isize')
    x = B.local('')
    y = B.local('')
    if kind in ('rmap', 'omap'):
        adt_out = adt_in
        wrap = B.block([B.assign(dest, aggr(adt_out, good_in, [B.mv(y)]), span)], dict(go))
        e = _emit_call(B, raw_by_path, callee, [B.mv(x)], B.place(y), wrap, span, used)
        if e is None:
            return False
        good_b = B.block([B.assign(B.place(x), {'k': 'use', 'op': B.mv(o, '', pj(good_in))}, span)], {'k': 'goto', 'target': e, 'span': span})
        if is_opt:
            bad_b = B.block([B.assign(dest, aggr(adt_out, 'None', []), span)], dict(go))
        else:
            bad_b = B.block([B.assign(B.place(x), {'k': 'use', 'op': B.mv(o, '', pj('Err'))}, span), B.assign(dest, aggr(adt_out, 'Err', [B.mv(x)]), span)], dict(go))
    elif kind == 'map_err':
        wrap = B.block([B.assign(dest, aggr('std::result::Result', 'Err', [B.mv(y)]), span)], dict(go))
        e = _emit_call(B, raw_by_path, callee, [B.mv(x)], B.place(y), wrap, span, used)
        if e is None:
            return False
        bad_b = B.block([B.assign(B.place(x), {'k': 'use', 'op': B.mv(o, '', pj('Err'))}, span)], {'k': 'goto', 'target': e, 'span': span})
        v = B.local('')
        good_b = B.block([B.assign(B.place(v), {'k': 'use', 'op': B.mv(o, '', pj('Ok'))}, span), B.assign(dest, aggr('std::result::Result', 'Ok', [B.mv(v)]), span)], dict(go))
    else:  # ok
        good_b = B.block([B.assign(B.place(x), {'k': 'use', 'op': B.mv(o, '', pj('Ok'))}, span), B.assign(dest, aggr('std::option::Option', 'Some', [B.mv(x)]), span)], dict(go))
        bad_b = B.block([B.assign(dest, aggr('std::option::Option', 'None', []), span)], dict(go))
    unr = B.block([], {'k': 'unreachable', 'span': span})
    blk['stmts'].append(B.assign(B.place(d, 'isize'), {'k': 'discr', 'place': B.place(o, oty), 'variants': variants}, span))
    arms = [[0, bad_b], [1, good_b]] if is_opt else [[0, good_b], [1, bad_b]]
    blk['term'] = {'k': 'switch', 'discr': B.mv(d, 'isize'), 'arms': arms, 'otherwise': unr, 'discr_ty': 'isize', 'span': span}
    return True


def expand_combinators(raw_by_path):
    """returns (new_raw_by_path, closure paths that were spliced into their creators)"""
    out = {}
    used = set()
    for path, raw in raw_by_path.items():
        cur = raw
        for _ in range(12):
            hit = None
            for bi, blk in enumerate(cur['blocks']):
                t = blk['term']
                if not t or t['k'] != 'call' or blk.get('cleanup'):
                    continue
                fp = _fn_path(t)
                kind = _ITER_CONSUMERS.get(fp) or _OPT_COMBINATORS.get(fp) or ('and_modify' if fp and _ENTRY_MODIFY.match(fp) else None) or \
                    ('transpose' if fp == _TRANSPOSE else None) or ('direct' if fp and _FN_TRAIT_CALL.match(fp) else None)
                if fp in _DATA_COMBINATORS:
                    # map/map_err with any callable, ok(): closures in map() keep going through _expand_one first
                    a_last = t['args'][-1] if t['args'] else None
                    is_clo = a_last is not None and _plain_local(a_last) and a_last['place']['l'] in _closure_defs(cur, raw_by_path)
                    if not (kind and is_clo):
                        kind = 'data'
                if kind:
                    hit = (bi, kind)
                    if cur is raw:
                        cur = _copy.deepcopy(raw)
                    snapshot = _copy.deepcopy(cur)
                    try:
                        if kind == 'and_modify':
                            ok = _expand_entry_modify(cur, raw_by_path, bi, used)
                        elif kind == 'transpose':
                            ok = _expand_transpose(cur, bi)
                        elif kind == 'direct':
                            ok = _expand_direct_call(cur, raw_by_path, bi, used)
                        elif kind == 'data':
                            ok = _expand_data_combinator(cur, raw_by_path, bi, _DATA_COMBINATORS[fp], used)
                        else:
                            ok = _expand_one(cur, raw_by_path, bi, kind, used)
                    except (KeyError, IndexError):
                        ok = False
                    if ok:
                        break
                    cur = snapshot
                    hit = None
            if hit is None:
                break
        if cur is not raw:
            thread_known_variants(cur)
            thread_bool_constants(cur)
        out[path] = cur
    return out, used


# ------------------------------------------------------------------------------------------
# Jump threading for boolean constants (after inlining): a predicate helper `a && b` compiles to
#   bb1: r = const false; goto J      bb2: r = <b>; goto J      J: d = move r; switch d
# Inlined into its caller, the join hides that the false path never reaches the true arm. Each path that assigns a
# constant gets a private copy of the short chain up to the switch, with the switch resolved and the temporaries
# renamed, so that the shared temporary keeps only its non-constant definitions (plain constant propagation).

def _op_local(o):
    if o.get('k') in ('move', 'copy') and not o['place']['p']:
        return o['place']['l']
    return None


def _rename_op(o, ren):
    l = _op_local(o)
    if l is not None and l in ren:
        return dict(o, place=dict(o['place'], l=ren[l]))
    return o


def _uses_local(x, locs):
    if isinstance(x, dict):
        if 'l' in x and 'p' in x and x['l'] in locs:
            return True
        return any(_uses_local(v, locs) for v in x.values())
    if isinstance(x, list):
        return any(_uses_local(v, locs) for v in x)
    return False


def thread_bool_constants(raw, max_chain=6, max_rounds=40):
    blocks = raw['blocks']
    changed_any = False
    for _ in range(max_rounds):
        changed = False
        for pi, P in enumerate(blocks):
            if P.get('cleanup') or P['term']['k'] != 'goto' or not P['stmts']:
                continue
            last = P['stmts'][-1]
            if last['k'] != 'assign' or last['place']['p'] or last['rv']['k'] != 'use' or last['rv']['op'].get('k') != 'const':
                continue
            val = last['rv']['op'].get('val')
            if not isinstance(val, dict) or 'bool' not in val:
                continue
            kn = {last['place']['l']: bool(val['bool'])}
            chain = []
            cur = P['term']['target']
            resolved = None
            ok = True
            while len(chain) < max_chain:
                B = blocks[cur]
                if B.get('cleanup') or cur == pi:
                    ok = False
                    break
                for s in B['stmts']:
                    if s['k'] != 'assign':
                        continue
                    src = _op_local(s['rv']['op']) if s['rv']['k'] == 'use' else None
                    if not s['place']['p'] and src is not None and src in kn:
                        kn[s['place']['l']] = kn[src]
                    elif _uses_local(s['rv'], set(kn)) or (not s['place']['p'] and s['place']['l'] in kn):
                        ok = False   # the constant is consumed or overwritten in a way we do not follow
                if not ok:
                    break
                t = B['term']
                if t['k'] == 'goto':
                    chain.append(cur)
                    cur = t['target']
                    continue
                if t['k'] == 'switch' and t.get('discr_ty') == 'bool' and _op_local(t['discr']) in kn:
                    v = 1 if kn[_op_local(t['discr'])] else 0
                    tgt = None
                    for a, bb in t['arms']:
                        if int(a) == v:
                            tgt = bb
                    resolved = tgt if tgt is not None else t['otherwise']
                    chain.append(cur)
                break
            if not ok or resolved is None:
                continue
            # the temporaries must be dead outside the chain (and outside P's defining statement)
            locs = set(kn)
            chainset = set(chain)
            leak = False
            for bi, B in enumerate(blocks):
                if bi in chainset:
                    continue
                stmts = B['stmts'][:-1] if bi == pi else B['stmts']
                for s in stmts:
                    if s['k'] == 'assign' and (_uses_local(s['rv'], locs) or (s['place']['p'] and s['place']['l'] in locs)):
                        leak = True
                tt = dict(B['term'])
                tt.pop('dest', None)
                if _uses_local(tt, locs):
                    leak = True
            if leak:
                continue
            ren = {}
            for l in locs:
                raw['locals'].append(dict(raw['locals'][l]))
                ren[l] = len(raw['locals']) - 1
            first_new = len(blocks)
            for ci, bidx in enumerate(chain):
                B = blocks[bidx]
                stmts = []
                for s in B['stmts']:
                    if s['k'] == 'assign':
                        s2 = _copy.deepcopy(s)
                        if not s2['place']['p'] and s2['place']['l'] in ren:
                            s2['place']['l'] = ren[s2['place']['l']]
                        if s2['rv']['k'] == 'use':
                            s2['rv']['op'] = _rename_op(s2['rv']['op'], ren)
                        stmts.append(s2)
                    else:
                        stmts.append(_copy.deepcopy(s))
                nxt = first_new + ci + 1 if ci + 1 < len(chain) else resolved
                blocks.append({'stmts': stmts, 'term': {'k': 'goto', 'target': nxt, 'span': B['term'].get('span', {})}})
            P['stmts'][-1] = dict(last, place=dict(last['place'], l=ren[last['place']['l']]))
            P['term'] = dict(P['term'], target=first_new)
            changed = True
            changed_any = True
            break
        if not changed:
            break
    if changed_any:
        _prune_unreachable(raw)
    return changed_any


# ------------------------------------------------------------------------------------------
# Unrolling of loops over literal arrays:  for x in [a, b, c] { body }  ==  { body[x:=a]; body[x:=b]; body[x:=c] }.
# The trip count and every element are compile-time facts, so the unrolled CFG is the same program; rules then see
# "flush w1; flush w2; .." whether it was written as four statements or as a loop over an array of writers, and a
# rename loop over ["blocks", "transactions", ..] as four renames with constant names.

def _rename_locals(x, ren):
    if isinstance(x, dict):
        out = {}
        for k, v in x.items():
            out[k] = _rename_locals(v, ren)
        if 'l' in out and 'p' in out and isinstance(out['l'], int) and out['l'] in ren:
            out['l'] = ren[out['l']]
        if out.get('k') == 'index' and isinstance(out.get('local'), int) and out['local'] in ren:
            out['local'] = ren[out['local']]
        return out
    if isinstance(x, list):
        return [_rename_locals(v, ren) for v in x]
    return x


def _retarget(t, f):
    t = dict(t)
    for key in ('target', 'otherwise'):
        if isinstance(t.get(key), int):
            t[key] = f(t[key])
    if t.get('k') == 'switch':
        t['arms'] = [[v, f(bb)] for v, bb in t['arms']]
    return t


def _const_str_array(val):
    """string constants of a constant `[&str; N]` (or a reference to one) as operands, else None"""
    if not isinstance(val, dict) or not val.get('has_ptrs'):
        return None
    ptrs = val.get('ptrs', [])
    nbytes = len(val.get('alloc_bytes', []))
    if len(ptrs) == 1 and nbytes == 8:
        return _const_str_array(ptrs[0].get('to'))
    if ptrs and nbytes == 16 * len(ptrs) and all(p.get('at') == 16 * i for i, p in enumerate(ptrs)):
        out = []
        for p in ptrs:
            to = p.get('to') or {}
            if to.get('has_ptrs') or 'alloc_bytes' not in to:
                return None
            try:
                out.append({'k': 'const', 'ty': '&str', 'val': {'str': bytes(to['alloc_bytes']).decode('utf-8')}})
            except UnicodeDecodeError:
                return None
        return out
    return None


def _array_source(raw, op, depth=8):
    """(array local, by_ref, element operands) when `op` is (a reference to / a move of) a local built by one array
    aggregate, or a constant array of string literals"""
    by_ref = False
    for _ in range(depth):
        if op.get('k') == 'const':
            ops = _const_str_array(op.get('val'))
            if ops is None and 'promoted' in op and op['promoted'] < len(raw.get('promoted', [])):
                # &CONST_ARRAY is a promoted constant whose body loads the named constant
                for pb in raw['promoted'][op['promoted']]['blocks']:
                    for st in pb['stmts']:
                        if st['k'] == 'assign' and st['rv']['k'] == 'use' and st['rv']['op'].get('k') == 'const':
                            ops = ops or _const_str_array(st['rv']['op'].get('val'))
            return (None, False, ops) if ops is not None else None
        if not _plain_local(op):
            return None
        st = _single_assign_def(raw, op['place']['l'])
        if st is None:
            return None
        rv = st['rv']
        if rv['k'] == 'aggr' and rv.get('akind') == 'array':
            return op['place']['l'], by_ref, rv['ops']
        if rv['k'] == 'use':
            op = rv['op']
            continue
        if rv['k'] == 'ref':
            pl = rv['place']
            if pl['p'] == [] or pl['p'] == [{'k': 'deref'}]:
                by_ref = by_ref or pl['p'] == []
                op = {'k': 'copy', 'place': {'l': pl['l'], 'p': [], 'ty': ''}}
                continue
            return None
        if rv['k'] == 'cast' and str(rv.get('kind', '')).startswith('PointerCoercion'):
            op = rv['op']
            continue
        return None
    return None


def unroll_array_loops(raw, max_len=8, max_loops=6):
    changed_any = False
    for _round in range(max_loops):
        tb = Body(None, raw)
        cdefs = _call_defs(raw)
        done = False
        for h, lb, back in sorted(tb.loops(), key=lambda x: len(x[1])):
            blocks = raw['blocks']
            ht = blocks[h]['term']
            if ht['k'] != 'call' or _fn_path(ht) != 'std::iter::Iterator::next' or ht['dest']['p'] or ht.get('target') not in lb:
                continue
            h2 = ht['target']
            t2 = blocks[h2]['term']
            if t2['k'] != 'switch' or len(t2['arms']) != 2 or len(blocks[h2]['stmts']) == 0:
                continue
            arms = {int(v): bb for v, bb in t2['arms']}
            if set(arms) != {0, 1} or arms[0] in lb or arms[1] not in lb:
                continue
            exitb, bodyb = arms[0], arms[1]
            n_local = ht['dest']['l']
            # the iterator local behind `next(&mut *&mut it)`
            op = ht['args'][0]
            it_local = None
            for _ in range(4):
                if not _plain_local(op):
                    break
                st = _single_assign_def(raw, op['place']['l'])
                if st is None or st['rv']['k'] != 'ref':
                    break
                pl = st['rv']['place']
                if pl['p'] == []:
                    it_local = pl['l']
                    break
                if pl['p'] == [{'k': 'deref'}]:
                    op = {'k': 'copy', 'place': {'l': pl['l'], 'p': [], 'ty': ''}}
                    continue
                break
            if it_local is None:
                continue
            src = {'k': 'copy', 'place': {'l': it_local, 'p': [], 'ty': ''}}
            arr = None
            for _ in range(6):
                l = src['place']['l']
                if l in cdefs:
                    cbi, ct = cdefs[l]
                    fp = _fn_path(ct) or ''
                    if (fp.endswith('IntoIterator::into_iter') or fp.endswith('::iter')) and len(ct['args']) == 1:
                        arr = _array_source(raw, ct['args'][0])
                    break
                st = _single_assign_def(raw, l)
                if st is not None and st['rv']['k'] == 'ref' and st['rv']['place']['p'] == []:
                    # `(&mut it).try_for_each(..)`: the consumer was handed a reference to the iterator
                    src = {'k': 'copy', 'place': {'l': st['rv']['place']['l'], 'p': [], 'ty': ''}}
                    continue
                if st is None or st['rv']['k'] != 'use' or not _plain_local(st['rv']['op']):
                    break
                src = st['rv']['op']
            if arr is None:
                continue
            arr_local, by_ref, ops = arr
            n = len(ops)
            if n > max_len:
                continue
            # loop-local temporaries: defined only inside the loop and never used outside it
            inside = set(lb)
            defs_in, defs_out = set(), set()
            for bi, B in enumerate(blocks):
                tgt = defs_in if bi in inside else defs_out
                for st in B['stmts']:
                    if st['k'] == 'assign' and not st['place']['p']:
                        tgt.add(st['place']['l'])
                tt = B['term']
                if tt and tt['k'] == 'call' and not tt['dest']['p']:
                    tgt.add(tt['dest']['l'])
            cand = defs_in - defs_out - set(range(0, raw['arg_count'] + 1))
            outside_json = [B for bi, B in enumerate(blocks) if bi not in inside]
            loop_locals = set(l for l in cand if not _uses_local(outside_json, {l}))
            span = ht.get('span', {})
            item_ty = ''
            B_ = _Builder(raw)

            def some_stmt(k, n_l):
                if by_ref:
                    tmp = B_.local('&' + item_ty)
                    st1 = B_.assign(B_.place(tmp), {'k': 'ref', 'mut': False, 'place': {'l': arr_local, 'p': [{'k': 'cindex', 'offset': k, 'min_length': n, 'from_end': False}], 'ty': ''}}, span)
                    item = B_.mv(tmp)
                    pre = [st1]
                else:
                    item = _copy.deepcopy(ops[k])
                    pre = []
                return pre + [B_.assign(B_.place(n_l), {'k': 'aggr', 'akind': 'adt', 'adt': 'std::option::Option', 'adt_full': '', 'variant': 'Some', 'fields': ['0'], 'ops': [item]}, span)]
            order = sorted(lb)
            # copies 1..n-1 (copy 0 is the original blocks)
            headers = {0: h}
            maps = {0: {b: b for b in order}}
            rens = {0: {}}
            for k in range(1, n):
                ren = {}
                for l in sorted(loop_locals):
                    raw['locals'].append(dict(raw['locals'][l]))
                    ren[l] = len(raw['locals']) - 1
                base = len(blocks)
                maps[k] = {b: base + i for i, b in enumerate(order)}
                rens[k] = ren
                headers[k] = maps[k][h]
                for b in order:
                    blocks.append(_rename_locals(_copy.deepcopy(blocks[b]), ren))
            fin = len(blocks)
            blocks.append({'stmts': [], 'term': {'k': 'goto', 'target': exitb, 'span': span}})
            for k in range(n):
                mp = maps[k]
                nxt_header = headers[k + 1] if k + 1 < n else fin
                for b in order:
                    nb = blocks[mp[b]]
                    if b == h:
                        nl = rens[k].get(n_local, n_local)
                        nb['stmts'] = nb['stmts'] + some_stmt(k, nl)
                        nb['term'] = {'k': 'goto', 'target': mp[h2], 'span': span}
                    elif b == h2:
                        nb['term'] = {'k': 'goto', 'target': mp[bodyb], 'span': span}
                    else:
                        nb['term'] = _retarget(nb['term'], lambda x, mp=mp, nh=nxt_header: nh if x == h else mp.get(x, x))
            if n == 0:
                blocks[h]['term'] = {'k': 'goto', 'target': exitb, 'span': span}
            done = True
            changed_any = True
            break
        if not done:
            break
    if changed_any:
        _prune_unreachable(raw)
    return changed_any


def unroll_all(raw_by_path):
    out = {}
    for path, raw in raw_by_path.items():
        has_array = any(st['k'] == 'assign' and st['rv']['k'] == 'aggr' and st['rv'].get('akind') == 'array'
                        for b in raw['blocks'] for st in b['stmts'])
        has_loop_call = any(b['term'] and b['term']['k'] == 'call' and _fn_path(b['term']) == 'std::iter::Iterator::next' for b in raw['blocks'])
        if has_loop_call and (has_array or '"has_ptrs": true' in json.dumps(raw['blocks']) or '"has_ptrs": true' in json.dumps(raw.get('promoted', []))):
            cur = _copy.deepcopy(raw)
            try:
                if unroll_array_loops(cur):
                    out[path] = cur
                    continue
            except (KeyError, IndexError, TypeError):
                pass
        out[path] = raw
    return out


# ------------------------------------------------------------------------------------------
# Path splitting on a selector constant: when every predecessor of a join assigns an integer constant to the same
# local (`let w = match op { A => 1, B => 2, C => 4, _ => return .. };`) and nothing else ever writes that local, the
# code after the join is the same code specialised for each constant — i.e. the program with one copy of the tail per
# match arm, which is how it reads when the arms are written out. The tail (everything reachable from the join) is
# duplicated per predecessor with the selector and the tail's own temporaries renamed.

def split_const_joins(raw, max_alts=4, max_region=60, max_splits=2):
    changed_any = False
    for _ in range(max_splits):
        blocks = raw['blocks']
        preds = {}
        for bi, B in enumerate(blocks):
            if B.get('cleanup') or not B['term']:
                continue
            for tg in _targets_of(B['term']):
                preds.setdefault(tg, []).append(bi)
        # number of whole-local definitions per local
        ndefs = {}
        for B in blocks:
            for st in B['stmts']:
                if st['k'] == 'assign' and not st['place']['p']:
                    ndefs[st['place']['l']] = ndefs.get(st['place']['l'], 0) + 1
            t = B['term']
            if t and t['k'] == 'call' and not t['dest']['p']:
                ndefs[t['dest']['l']] = ndefs.get(t['dest']['l'], 0) + 1
        done = False
        for J, ps in sorted(preds.items()):
            if not (2 <= len(ps) <= max_alts) or blocks[J].get('cleanup'):
                continue
            sel = None
            vals = []
            ok = True
            for p in ps:
                P = blocks[p]
                if P['term']['k'] != 'goto' or not P['stmts']:
                    ok = False
                    break
                last = P['stmts'][-1]
                if last['k'] != 'assign' or last['place']['p'] or last['rv']['k'] != 'use' or last['rv']['op'].get('k') != 'const':
                    ok = False
                    break
                v = last['rv']['op'].get('val')
                if not isinstance(v, dict) or 'int' not in v:
                    ok = False
                    break
                if sel is None:
                    sel = last['place']['l']
                elif sel != last['place']['l']:
                    ok = False
                    break
                vals.append(int(v['int']))
            if not ok or sel is None or len(set(vals)) != len(vals) or ndefs.get(sel) != len(ps) or sel <= raw['arg_count']:
                continue
            # the tail
            region = set()
            work = [J]
            while work:
                b = work.pop()
                if b in region:
                    continue
                region.add(b)
                t = blocks[b]['term']
                work.extend(_targets_of(t) if t else [])
            if len(region) > max_region or any(p in region for p in ps):
                continue
            # temporaries of the tail: defined only there and unused outside
            defs_in, defs_out = set(), set()
            for bi, B in enumerate(blocks):
                tgt = defs_in if bi in region else defs_out
                for st in B['stmts']:
                    if st['k'] == 'assign' and not st['place']['p']:
                        tgt.add(st['place']['l'])
                tt = B['term']
                if tt and tt['k'] == 'call' and not tt['dest']['p']:
                    tgt.add(tt['dest']['l'])
            cand = defs_in - defs_out - set(range(0, raw['arg_count'] + 1))
            outside = [B for bi, B in enumerate(blocks) if bi not in region]
            tail_locals = set(l for l in cand if not _uses_local(outside, {l}))
            order = sorted(region)
            for k, p in enumerate(ps):
                if k == 0:
                    continue   # the first predecessor keeps the original tail
                ren = {}
                for l in sorted(tail_locals | {sel}):
                    raw['locals'].append(dict(raw['locals'][l]))
                    ren[l] = len(raw['locals']) - 1
                base = len(blocks)
                mp = {b: base + i for i, b in enumerate(order)}
                for b in order:
                    nb = _rename_locals(_copy.deepcopy(blocks[b]), ren)
                    if nb['term']:
                        nb['term'] = _retarget(nb['term'], lambda x, mp=mp: mp.get(x, x))
                        if isinstance(nb['term'].get('cleanup'), int):
                            pass
                    blocks.append(nb)
                P = blocks[p]
                P['stmts'][-1] = _rename_locals(P['stmts'][-1], {sel: ren[sel]})
                P['term'] = dict(P['term'], target=mp[J])
            done = True
            changed_any = True
            break
        if not done:
            break
    return changed_any


def split_all(raw_by_path):
    out = {}
    for path, raw in raw_by_path.items():
        cur = _copy.deepcopy(raw)
        try:
            if split_const_joins(cur):
                out[path] = cur
                continue
        except (KeyError, IndexError, TypeError):
            pass
        out[path] = raw
    return out
