"""development helper: cache facts and poke at expressions"""
import sys, os, json, pickle
sys.path.insert(0, os.path.dirname(os.path.abspath(__file__)))
import facts, mir
def load(profile='dev', fresh=False):
    p = os.path.join(facts.WORK, 'devcache-%s.json' % profile)
    if fresh or not os.path.exists(p):
        f = facts.extract(profile)
        json.dump(f, open(p, 'w'))
    return mir.Program(json.load(open(p)))
if __name__ == '__main__':
    prog = load(fresh='--fresh' in sys.argv)
    b = prog.one('BlockchainParser::start')
    for cs in b.calls:
        if not cs.macros:
            print(cs.bb, cs.name, [mir.show(prog.inline(a)) for a in b.arg_exprs(cs)])
    print(b.loops())
    for k, v in sorted(b.edge_facts().items()):
        print(k, [(f[0], mir.show(f[1]), f[2]) for f in v])
