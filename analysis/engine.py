"""Rule engine plumbing: instances, verdicts, floors, known findings, evidence, replay files."""
import hashlib
import json
import os
import sys
import time
import traceback

import facts as factsmod
import mir
from mir import Unrecognised

VERIF = factsmod.VERIF
# (RBP_EVIDENCE_DIR: only the parallel regression runners under tools/ set it, to keep scratch runs out of evidence/)
EVID = os.environ.get('RBP_EVIDENCE_DIR') or os.path.join(VERIF, 'evidence')
KNOWN = os.path.join(VERIF, 'known_findings.json')


class Instance:
    __slots__ = ('rule', 'key', 'verdict', 'site', 'detail', 'witness', 'nontrivial', 'profile')

    def __init__(self, rule, key, verdict, site, detail, witness=None, nontrivial=True, profile='dev'):
        self.rule = rule
        self.key = key
        self.verdict = verdict  # ok | violation | unrecognised | vacuous
        self.site = site
        self.detail = detail
        self.witness = witness
        self.nontrivial = nontrivial
        self.profile = profile

    def to_json(self):
        d = {'rule': self.rule, 'key': self.key, 'verdict': self.verdict, 'site': self.site,
             'detail': self.detail, 'profile': self.profile}
        if self.witness is not None:
            d['witness'] = self.witness
        return d


def site_of(x):
    """render a site string from a CallSite / (body, bb) / Body / str."""
    if x is None:
        return ''
    if isinstance(x, str):
        return x
    if isinstance(x, mir.CallSite):
        return x.where()
    if isinstance(x, mir.Body):
        return '%s:%d-%d (%s)' % (x.file, x.line_lo, x.line_hi, x.path)
    if isinstance(x, tuple) and len(x) == 2 and isinstance(x[0], mir.Body):
        b, bb = x
        return '%s:%d (%s bb%d)' % (b.file, b.line_of(bb), b.path, bb)
    return str(x)


class Ctx:
    def __init__(self, prop, prog, tier='quick', profile='dev'):
        self.prop = prop
        self.prog = prog
        self.tier = tier
        self.profile = profile
        self.instances = []
        self.floors = {}
        self.notes = []
        self.functions = set()
        self.trusted = []
        self.assumptions = []
        self.inline_depth = 3 if tier == 'quick' else 8

    # verdicts -------------------------------------------------------------------------------
    def ok(self, rule, key, site=None, detail='', nontrivial=True):
        self.instances.append(Instance(rule, '%s.%s:%s' % (self.prop, rule, key), 'ok', site_of(site), detail,
                                       None, nontrivial, self.profile))

    def violation(self, rule, key, site=None, detail='', witness=None):
        self.instances.append(Instance(rule, '%s.%s:%s' % (self.prop, rule, key), 'violation', site_of(site),
                                       detail, witness, True, self.profile))

    def unrecognised(self, rule, key, site=None, detail=''):
        self.instances.append(Instance(rule, '%s.%s:unrecognised:%s' % (self.prop, rule, key), 'unrecognised',
                                       site_of(site), detail, None, True, self.profile))

    def check(self, rule, key, cond, site=None, detail='', bad_detail=None, witness=None):
        if cond:
            self.ok(rule, key, site, detail)
        else:
            self.violation(rule, key, site, bad_detail or detail, witness)
        return cond

    def floor(self, rule, n):
        """rule must evaluate at least n instances (counted by reading the pinned tree)."""
        self.floors[rule] = n

    def note(self, text):
        self.notes.append(text)

    def touch(self, *bodies):
        for b in bodies:
            if b is not None:
                self.functions.add(b.path)

    def guard(self, rule, fn, *args):
        """run a sub-rule; Unrecognised -> fail closed with a named instance."""
        try:
            fn(self, *args)
        except Unrecognised as u:
            self.unrecognised(rule, u.what, None, u.detail)
        except Exception as ex:  # a checker crash must not pass silently
            tb = traceback.format_exc().strip().splitlines()
            self.unrecognised(rule, 'checker-error:%s' % type(ex).__name__, None,
                              '%s | %s' % (ex, ' / '.join(tb[-4:])))

    def count(self, rule):
        return sum(1 for i in self.instances if i.rule == rule)


def load_known():
    if not os.path.exists(KNOWN):
        return []
    with open(KNOWN) as f:
        return json.load(f).get('findings', [])


def finish(prop, ctxs, tier, t0, explanation, level_rule, seed=0, extra=None):
    """evaluate floors, known findings; write evidence + replay files; print verdict lines.
    returns the process exit code."""
    insts = []
    floors = {}
    functions = set()
    notes = []
    trusted = []
    assumptions = []
    for c in ctxs:
        # floors are evaluated per profile
        for rule, n in c.floors.items():
            got = c.count(rule)
            floors['%s[%s]' % (rule, c.profile)] = {'floor': n, 'measured': got}
            if got < n:
                c.instances.append(Instance(rule, '%s.%s:vacuous' % (prop, rule), 'vacuous', '',
                                            'rule evaluated %d instance(s), floor is %d: anchors lost'
                                            % (got, n), None, True, c.profile))
        insts.extend(c.instances)
        functions |= c.functions
        for x in c.notes:
            if x not in notes:
                notes.append(x)
        for x in c.trusted:
            if x not in trusted:
                trusted.append(x)
        for x in c.assumptions:
            if x not in assumptions:
                assumptions.append(x)
    known = [k for k in load_known() if k['property'] == prop]
    open_keys = {k['key']: k for k in known if k.get('status') == 'open'}
    bad = [i for i in insts if i.verdict != 'ok']
    # de-duplicate by key (dev/release report the same key once)
    seen = {}
    for i in bad:
        seen.setdefault(i.key, i)
    bad = list(seen.values())
    viol = []
    kf = []
    for i in bad:
        if i.verdict == 'violation' and i.key in open_keys:
            kf.append((i, open_keys[i.key]))
        else:
            viol.append(i)
    os.makedirs(os.path.join(EVID, 'violations'), exist_ok=True)
    for fn in os.listdir(os.path.join(EVID, 'violations')):
        if fn.startswith(prop + '-'):
            os.unlink(os.path.join(EVID, 'violations', fn))
    lines = []
    for i, k in kf:
        lines.append('KNOWN-FINDING: property=%s %s [%s] at %s' % (prop, k['what'], i.key, i.site))
    for i in viol:
        h = hashlib.sha256(i.key.encode()).hexdigest()[:16]
        path = os.path.join(EVID, 'violations', '%s-%s.json' % (prop, h))
        with open(path, 'w') as f:
            json.dump({'property': prop, 'instance': i.to_json(), 'tier': tier,
                       'repo': ctxs[0].prog.meta.get('repo'),
                       'how_to_replay': './check %s --explain %s' % (prop, path)}, f, indent=1)
        lines.append('%s %s at %s: %s' % (i.verdict.upper(), i.key, i.site, i.detail))
        lines.append('VIOLATION property=%s replay=%s' % (prop, path))
    oks = [i for i in insts if i.verdict == 'ok']
    distinct = len({i.key for i in oks if i.nontrivial} | {i.key for i in bad})
    by_rule = {}
    for i in insts:
        r = by_rule.setdefault(i.rule, {'ok': 0, 'not_ok': 0})
        r['ok' if i.verdict == 'ok' else 'not_ok'] += 1
    samples = []
    per_rule_seen = {}
    for i in insts:
        if per_rule_seen.get(i.rule, 0) < 2 or i.verdict != 'ok':
            per_rule_seen[i.rule] = per_rule_seen.get(i.rule, 0) + 1
            samples.append(i.to_json())
    cov = {
        'explanation': explanation,
        'evaluations': len(insts),
        'distinct_nontrivial': distinct,
        'rule': level_rule,
        'samples': samples[:60],
        'rules': by_rule,
        'floors': floors,
        'functions_analysed': sorted(functions),
        'bodies_in_crate': ctxs[0].prog.meta['body_count'],
        'call_sites_in_crate': sum(len(b.calls) for b in ctxs[0].prog.bodies.values()),
        'profiles': [c.profile for c in ctxs],
        'trusted_base': trusted,
        'known_findings_reported': [i.key for i, _ in kf],
        'notes': notes,
        'cargo_lock_sha256': factsmod.lock_digest(ctxs[0].prog.meta.get('repo')),
        'exhaustive': True,
    }
    if extra:
        cov.update(extra)
    ev = {
        'property_id': prop,
        'tier': tier,
        'seed': seed,
        'level': 'other',
        'coverage': cov,
        'assumptions': assumptions,
        'wall_s': round(time.time() - t0, 2),
        'violations': len(viol),
    }
    with open(os.path.join(EVID, '%s.json' % prop), 'w') as f:
        json.dump(ev, f, indent=1)
    for ln in lines:
        print(ln)
    print('%s: %d instances over %d rules, %d ok, %d known finding(s), %d violation(s) [%s, %.1fs]'
          % (prop, len(insts), len(by_rule), len(oks), len(kf), len(viol), tier, time.time() - t0))
    return 1 if viol else 0
