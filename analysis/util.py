"""Shared helpers for the rules: relation normalisation, path enumeration, reachability to
trait methods, affine view of integer expressions."""
import re
from collections import deque

import mir
from mir import peel, unname, show, Unrecognised, walk

_SWAP = {'lt': ('lt', False), 'le': ('le', False), 'gt': ('lt', True), 'ge': ('le', True)}
_NEG = {'lt': ('le', True), 'le': ('lt', True), 'eq': ('ne', False), 'ne': ('eq', False)}


def _val(e):
    """strip refs/derefs/named wrappers but keep calls (values, not provenance)."""
    return peel(e, calls=False, tries=False)


def norm_rel(e, truth=True):
    """normalise a boolean expression to ('lt'|'le'|'eq'|'ne', a, b) or ('bool', e, truth)."""
    e = _val(e)
    if e[0] == 'un' and e[1] == 'Not':
        return norm_rel(e[2], not truth)
    op = None
    a = b = None
    if e[0] == 'bin' and e[1] in ('Lt', 'Le', 'Gt', 'Ge', 'Eq', 'Ne'):
        op, a, b = e[1].lower(), e[2], e[3]
    elif e[0] == 'call':
        m = re.search(r'(?:PartialOrd|PartialEq)(?:<.*>)?>?::(lt|le|gt|ge|eq|ne)$', e[1])
        if m and len(e[2]) == 2:
            op, a, b = m.group(1), e[2][0], e[2][1]
    if op is None:
        return ('bool', e, truth)
    a, b = _val(a), _val(b)
    if op in _SWAP:
        op2, sw = _SWAP[op]
        if sw:
            a, b = b, a
        op = op2
    if not truth:
        op, sw = _NEG[op]
        if sw:
            a, b = b, a
    # integers: x < 1 is x <= 0 and 1 <= x is 0 < x
    if op == 'lt' and b[0] == 'int' and b[1] == 1 and len(b) > 2 and isinstance(b[2], str) and b[2].startswith('u'):
        op, b = 'le', ('int', 0, b[2])
    elif op == 'le' and a[0] == 'int' and a[1] == 1 and len(a) > 2 and isinstance(a[2], str) and a[2].startswith('u'):
        op, a = 'lt', ('int', 0, a[2])
    if op in ('eq', 'ne'):
        # unsigned comparison against zero: X != 0 is 0 < X and X == 0 is X <= 0 (one spelling for both)
        for x, y in ((a, b), (b, a)):
            if y[0] == 'int' and y[1] == 0 and len(y) > 2 and isinstance(y[2], str) and y[2].startswith('u'):
                return ('lt', y, x) if op == 'ne' else ('le', x, y)
        # symmetric relations: constant-like operand to the right, otherwise order by canonical text
        ca, cb = _constlike(a), _constlike(b)
        if ca and not cb:
            a, b = b, a
        elif ca == cb and mir.canon(a) > mir.canon(b):
            a, b = b, a
    return (op, a, b)


def _constlike(e):
    return not mir.contains(e, lambda x: x[0] in ('param', 'local', 'call', 'field', 'deref', 'idx', 'phi', 'cyc', 'try', 'variant', 'unknown'))


def rel_str(r):
    if r[0] == 'bool':
        return '%s%s' % ('' if r[2] else '!', show(r[1]))
    sym = {'lt': '<', 'le': '<=', 'eq': '==', 'ne': '!='}[r[0]]
    return '%s %s %s' % (show(r[1]), sym, show(r[2]))


def expand_rel(r):
    """a true range-membership test is the conjunction of its two bound comparisons:
    (a..=b).contains(&x) is a <= x && x <= b; (a..b).contains(&x) is a <= x && x < b"""
    if r[0] == 'bool' and r[2] and r[1][0] == 'call' and re.search(r'Range(Inclusive)?::<.*>::contains$|Range(Inclusive)?<.*>::contains$', r[1][1]) and len(r[1][2]) == 2:
        rng, x = _val(r[1][2][0]), _val(r[1][2][1])
        lo = hi = None
        incl = None
        if rng[0] == 'call' and re.search(r'RangeInclusive::<.*>::new$|RangeInclusive::new$', rng[1]) and len(rng[2]) == 2:
            lo, hi, incl = rng[2][0], rng[2][1], True
        elif rng[0] == 'aggr' and rng[2].endswith('ops::Range::Range'):
            f = dict(rng[3])
            lo, hi, incl = f.get('start'), f.get('end'), False
        elif rng[0] == 'aggr' and 'RangeInclusive' in rng[2]:
            f = dict(rng[3])
            lo, hi, incl = f.get('start'), f.get('end'), True
        if lo is not None and hi is not None:
            return [('le', _val(lo), x), ('le' if incl else 'lt', x, _val(hi))]
    return [r]


def facts_to_rels(facts):
    """turn ('cond', E, truth) facts into normalised relations; other facts unchanged."""
    out = []
    for f in facts:
        if f[0] == 'cond':
            out.extend(expand_rel(norm_rel(f[1], f[2])))
        else:
            out.append(f)
    return out


def closure_apply(prog, clo, args):
    """return expression of the closure value `clo` (an ('aggr','closure',path,upvars) expression of its creator)
    applied to `args`, expressed in the creator's frame: captured variables resolve through the aggregate"""
    clo = peel(clo)
    if clo[0] != 'aggr' or clo[1] != 'closure':
        return None
    cb = prog.bodies.get(clo[2])
    if cb is None:
        return None
    mapping = {1: clo}
    for i, a in enumerate(args):
        mapping[i + 2] = a
    return mir.subst(cb.ret_expr(), mapping)


def affine(e):
    """view an integer expression as base + k (k constant); returns (base_expr|None, k).
    saturating_sub/checked ops are reported through the `sat` flag in the third slot."""
    e = _val(e)
    sat = False
    k = 0
    while True:
        e = _val(e)
        if e[0] == 'int':
            return (None, k + e[1], sat)
        if e[0] == 'bin' and e[1] in ('Add', 'AddUnchecked', 'AddWithOverflow'):
            ca, cb = mir.int_value(e[2]), mir.int_value(e[3])
            if cb is not None:
                k += cb
                e = e[2]
                continue
            if ca is not None:
                k += ca
                e = e[3]
                continue
            return (e, k, sat)
        if e[0] == 'bin' and e[1] in ('Sub', 'SubUnchecked', 'SubWithOverflow'):
            cb = mir.int_value(e[3])
            if cb is not None:
                k -= cb
                e = e[2]
                continue
            return (e, k, sat)
        if e[0] == 'call' and len(e[2]) == 2:
            m = re.search(r'::(saturating_sub|wrapping_sub|saturating_add|wrapping_add)$', e[1])
            c = mir.int_value(e[2][1])
            if m and c is not None:
                if m.group(1).endswith('sub'):
                    k -= c
                else:
                    k += c
                if m.group(1).startswith('saturating'):
                    sat = True
                e = e[2][0]
                continue
        if e[0] == 'cast' and e[1] == 'IntToInt':
            # widening casts keep the value; narrowing is reported by callers that care
            e = e[2]
            continue
        return (e, k, sat)


def enumerate_paths(body, start=0, stop=None, limit=4000, within=None):
    """acyclic paths (lists of blocks) from `start` to a return block (or a block in `stop`)."""
    stop = set(stop) if stop is not None else None
    out = []
    stack = [(start, [start])]
    while stack:
        b, path = stack.pop()
        if (stop is not None and b in stop and len(path) > 1) or (stop is None and body.blocks[b]['term']['k'] == 'return'):
            out.append(path)
            if len(out) > limit:
                raise Unrecognised('paths', 'too many paths in %s' % body.path)
            continue
        for s2 in body.succ.get(b, []):
            if s2 in path:
                continue
            if within is not None and s2 not in within:
                continue
            stack.append((s2, path + [s2]))
    return out


def path_facts(body, path):
    ef = body.edge_facts()
    out = []
    for a, b in zip(path, path[1:]):
        out.extend(ef.get((a, b), []))
    return out


def last_def_on_path(body, path, local):
    """expression of the last whole-local definition of `local` along path (or None)."""
    defs = body.defs().get(local, [])
    best = None
    for d in defs:
        if d[1] in path:
            pos = path.index(d[1])
            if best is None or pos >= best[0]:
                best = (pos, d)
    if best is None:
        return None
    d = best[1]
    if d[0] == 'assign':
        return body.rvalue_expr(d[3])
    return body.call_expr(d[2])


def bool_function_dnf(body):
    """for a small bool-returning body: list of (relations on the path, returned value expr)."""
    out = []
    for p in enumerate_paths(body):
        facts = facts_to_rels(path_facts(body, p))
        v = last_def_on_path(body, p, 0)
        out.append((facts, v, p))
    return out


# --- reachability to trait methods ---------------------------------------------------------------

def virtual_sites(prog, trait_suffix, method):
    out = []
    for cs in prog.all_calls():
        if cs.method == method and cs.trait and cs.trait.endswith(trait_suffix) and cs.kind in ('virtual', 'unresolved'):
            out.append(cs)
    return out


def bodies_reaching(prog, target_bodies):
    """set of body paths from which some body in target_bodies is reachable in the call graph
    (without expanding virtual calls into the targets themselves)."""
    tset = set(b.path for b in target_bodies)
    rev = {}
    for b in prog.bodies.values():
        for c in prog.callees(b):
            rev.setdefault(c.path, set()).add(b.path)
    seen = set(tset)
    dq = deque(tset)
    while dq:
        x = dq.popleft()
        for p in rev.get(x, ()):
            if p not in seen:
                seen.add(p)
                dq.append(p)
    return seen


def call_reaches(prog, cs, reach_set):
    return any(t.path in reach_set for t in prog.targets(cs))


def min_max_count(body, region, entry, exits, is_counted):
    """min and max number of counted blocks on paths from entry to any block in `exits`, staying
    inside region (acyclic within region: inner cycles give max = inf)."""
    INF = float('inf')
    paths = enumerate_paths(body, entry, stop=exits, within=region | set(exits))
    lo, hi = INF, 0
    for p in paths:
        n = sum(1 for b in p[:-1] if is_counted(b)) + (1 if is_counted(p[-1]) and p[-1] not in exits else 0)
        lo = min(lo, n)
        hi = max(hi, n)
    # inner loops containing counted blocks
    for h, lb, _ in body.loops():
        if h != entry and lb < region and any(is_counted(b) for b in lb):
            hi = INF
    return lo, hi, paths


def self_field_stores(body):
    """stores to fields of `self` (param 1) in this body: list of (bb, [field chain], value_expr, stmt)"""
    out = []
    for bb, idx, place, rv, st in body.stores():
        root, ch = mir.field_chain(body.place_expr(place))
        if root[0] == 'param' and root[2] == 1 and ch:
            val = body.rvalue_expr(rv) if rv is not None else body.call_expr(body.call_at[bb])
            out.append((bb, ch, val, st))
    # library calls that overwrite the place they borrow: opt.take() stores None, mem::replace(&mut p, v) stores v,
    # mem::take(&mut p) stores Default::default()
    for cs in body.calls:
        m = None
        if re.search(r'option::Option::<.*>::take$', cs.name):
            m = ('aggr', 'adt', 'std::option::Option::None', ())
        elif re.search(r'mem::replace$', cs.name) and len(cs.args) == 2:
            m = body.op_expr(cs.args[1])
        elif re.search(r'mem::take$', cs.name):
            m = ('call', 'std::default::Default::default', (), cs.site)
        elif re.search(r'option::Option::<.*>::(insert|replace)$', cs.name) and len(cs.args) == 2:
            m = ('aggr', 'adt', 'std::option::Option::Some', (('0', body.op_expr(cs.args[1])),))
        if m is None or not cs.args:
            continue
        tgt = body.op_expr(cs.args[0])
        if tgt[0] != 'ref':
            continue
        root, ch = mir.field_chain(tgt[1])
        if root[0] == 'param' and root[2] == 1 and ch:
            out.append((cs.bb, ch, m, cs.term))
    return out


def mentions_self_field(e, names):
    for x in walk(e):
        if x[0] == 'field' and x[2] in names:
            root, ch = mir.field_chain(x)
            if root[0] == 'param' and root[2] == 1 and ch and ch[0] in names:
                return True
    return False


# --- constant string evaluation -----------------------------------------------------------------

def string_values(prog, body, e, depth=0):
    """set of constant strings `e` may evaluate to, or None if not statically known.
    Path::join(base, x) yields the values of x (last component)."""
    if depth > 8:
        return None
    e = peel(e, calls=False, tries=False)
    k = e[0]
    if k == 'str':
        return {e[1]}
    if k == 'phi':
        out = set()
        for x in e[1]:
            v = string_values(prog, body, x, depth + 1)
            if v is None:
                return None
            out |= v
        return out
    if k == 'try':
        if True:
            c = peel(e[1], calls=False)
            if c[0] == 'call' and c[1].endswith('::next'):
                it = peel(c[2][0])
                if it[0] == 'aggr' and it[1] == 'array':
                    out = set()
                    for _, x in it[3]:
                        sv = string_values(prog, body, x, depth + 1)
                        if sv is None:
                            return None
                        out |= sv
                    return out
        return string_values(prog, body, e[1], depth + 1)
    if k == 'call':
        name = e[1]
        if re.search(r'Path::join|PathBuf::join', name):
            return string_values(prog, body, e[2][1], depth + 1)
        if re.search(r'fmt::format$|hint::must_use', name):
            return string_values(prog, body, e[2][0], depth + 1)
        if re.search(r'fmt::Arguments::<.*>::(new|from_str|from_str_nonconst)$', name):
            b = prog.bodies.get(e[3][0]) or body
            cs = b.call_at.get(e[3][1])
            f = mir.decode_fmt(b, cs)
            outs = {''}
            for p in f.pieces:
                if p[0] == 'lit':
                    outs = {o + p[1] for o in outs}
                else:
                    if p[1] != 'Display' or not p[2]['default']:
                        return None
                    sv = string_values(prog, body, p[3], depth + 1)
                    if sv is None:
                        return None
                    outs = {o + s2 for o in outs for s2 in sv}
            return outs
        if mir.is_transparent_call(name) and e[2]:
            return string_values(prog, body, e[2][0], depth + 1)
    return None


def fmt_in(prog, body, e):
    """first format site found inside expression e (or None)."""
    for c in mir.calls_in(e, lambda nme: re.search(r'fmt::Arguments::<.*>::(new|from_str|from_str_nonconst)$', nme)):
        b = prog.bodies.get(c[3][0]) or body
        cs = b.call_at.get(c[3][1])
        if cs is not None:
            return mir.decode_fmt(b, cs)
    return None


def expand_params(prog, body, e, depth=2):
    """if `e` mentions parameters of `body` and body is an ordinary (non-trait-entry) local fn,
    return the list of expressions obtained by substituting each caller's arguments."""
    if depth == 0 or body.impl_trait or not mir.contains(e, lambda x: x[0] == 'param' and x[1] == body.path):
        return [(body, e)]
    callers = prog.callers_of(body)
    if not callers:
        return [(body, e)]
    out = []
    for cs in callers:
        mapping = {i + 1: cs.body.op_expr(a) for i, a in enumerate(cs.args)}
        out.extend(expand_params(prog, cs.body, mir.subst(e, mapping), depth - 1))
    return out


def result_is_consumed(body, cs, _depth=0):
    """is the Result returned by call `cs` looked at?  (propagated with ?, matched, unwrapped,
    returned, or handed to another function).  `.ok()`/`.is_ok()` whose own result is unused, an
    unused temporary, or `let _ =` count as dropped."""
    d = cs.dest
    if d['p']:
        return True  # stored into a place: visible to later code
    if d['l'] == 0:
        return True
    uses = body.real_uses(d['l'])
    if not uses:
        return False
    for bb, idx, how in uses:
        if idx == 'term':
            t = body.blocks[bb]['term']
            if t['k'] == 'call':
                c2 = body.call_at[bb]
                if re.search(r'Result::<.*>::(ok|err|is_ok|is_err)$|Result::(ok|err|is_ok|is_err)$', c2.name):
                    if _depth < 3 and result_is_consumed(body, c2, _depth + 1):
                        return True
                    continue
                return True
            return True
        else:
            st = body.blocks[bb]['stmts'][idx]
            # moved into another local: follow
            if st['k'] == 'assign' and st['rv']['k'] == 'use' and not st['place']['p']:
                l2 = st['place']['l']
                if l2 == 0 or body.real_uses(l2):
                    return True
                continue
            return True
    return False


def crel(r):
    """canonical string of a normalised relation"""
    if r[0] == 'bool':
        return '%s%s' % ('' if r[2] else '!', mir.canon(r[1]))
    if r[0] == 'is':
        return '%s is %s' % (mir.canon(r[1]), '|'.join(r[2]))
    if r[0] in ('eq', 'ne') and isinstance(r[2], tuple) and r[2] and not isinstance(r[2][0], str):
        return '%s %s {%s}' % (mir.canon(r[1]), 'in' if r[0] == 'eq' else 'notin', ','.join(str(x) for x in r[2]))
    sym = {'lt': '<', 'le': '<=', 'eq': '==', 'ne': '!='}[r[0]]
    s = '%s %s %s' % (mir.canon(r[1]), sym, mir.canon(r[2]))
    # equivalent spellings of emptiness tests
    m = re.match(r'^len\((.*)\) == 0$', s) or re.match(r'^len\((.*)\) <= 0$', s)
    if m:
        return 'is_empty(%s)' % m.group(1)
    m = re.match(r'^len\((.*)\) != 0$', s) or re.match(r'^0 < len\((.*)\)$', s)
    if m:
        return '!is_empty(%s)' % m.group(1)
    return s


def guards_at(body, bb):
    """canonical strings of the relations that must hold at entry of bb"""
    return sorted(set(crel(r) for r in facts_to_rels(body.facts_at(bb))))


def _operand_locals(x, out):
    if isinstance(x, dict):
        if 'l' in x and 'p' in x:
            out.add(x['l'])
            for pr in x['p']:
                _operand_locals(pr, out)
        else:
            for v in x.values():
                _operand_locals(v, out)
    elif isinstance(x, (list, tuple)):
        for v in x:
            _operand_locals(v, out)


def value_def_blocks(body, operand, bb, depth=6):
    """blocks in which the value passed as `operand` at `bb` was computed: the definitions dominating bb of the
    locals in its definition chain"""
    out = []
    seen = set()
    work = set()
    _operand_locals(operand, work)
    work = [(l, 0) for l in work]
    defs = body.defs()
    while work:
        l, d = work.pop()
        if l in seen or d > depth:
            continue
        seen.add(l)
        for df in defs.get(l, []):
            # a definition that dominates bb was executed on every path to bb (whether or not a later one
            # overwrote the local on some of them)
            if not body.dominates(df[1], bb):
                continue
            if df[1] not in out:
                out.append(df[1])
            nxt = set()
            if df[0] == 'assign':
                _operand_locals(df[3], nxt)
            else:
                _operand_locals(df[2].args, nxt)
            work.extend((x, d + 1) for x in nxt)
    return out


def value_alternatives(body, operand, depth=6, _seen=None):
    """split the value of `operand` along the definitions of the locals it is copied from: a list of
    (expression, defining block). `let x = if c {A} else {B}; use(x)` yields [(A, bbA), (B, bbB)], so a rule about
    the value used under a condition sees the same alternatives whether the branch encloses the use or only the
    definition."""
    _seen = _seen or set()
    if operand.get('k') not in ('move', 'copy'):
        return None
    pj = operand['place']['p']
    if pj:
        # `(x as V).0` where every definition of x builds an aggregate: the payloads of the V-built ones
        if not (len(pj) == 2 and pj[0].get('k') == 'downcast' and pj[1].get('k') == 'field'):
            return None
        bl = operand['place']['l']
        bds = body.defs().get(bl, [])
        if bl in _seen or depth < 0 or not bds or 1 <= bl <= body.raw.get('arg_count', 0):
            return None
        out = []
        for df in bds:
            if not (df[0] == 'assign' and df[3]['k'] == 'aggr' and df[3].get('variant')):
                return None
            if df[3]['variant'] != pj[0].get('variant'):
                continue
            idx = pj[1].get('idx', 0)
            if idx >= len(df[3]['ops']):
                return None
            sub = value_alternatives(body, df[3]['ops'][idx], depth - 1, _seen | {bl})
            if sub is not None:
                out.extend(sub)
            else:
                out.append((body.op_expr(df[3]['ops'][idx]), df[1]))
        return out or None
    l = operand['place']['l']
    if l in _seen or depth < 0:
        return None
    _seen = _seen | {l}
    ds = body.defs().get(l, [])
    if not ds or l <= body.raw.get('arg_count', 0) and l != 0:
        return None
    out = []
    for df in ds:
        if df[0] == 'assign' and df[3]['k'] == 'use':
            sub = value_alternatives(body, df[3]['op'], depth - 1, _seen)
            if sub is not None:
                out.extend(sub)
                continue
        e = body.rvalue_expr(df[3]) if df[0] == 'assign' else body.call_expr(df[2])
        out.append((e, df[1]))
    return out


def guards_for(body, bb, operand):
    """relations that must hold at bb, plus those that held when the value `operand` was computed (each
    definition block used dominates bb, so every execution reaching bb passed it under
    those guards). A memory write between the computation and the use removes the former from guards_at(bb) but
    not the fact that the value was computed under them."""
    g = set(guards_at(body, bb))
    for b in value_def_blocks(body, operand, bb):
        g.update(guards_at(body, b))
    return sorted(g)


def is_ok_guard(c):
    """canonical guard string saying only that a fallible call succeeded (`f(..)?` or the Ok arm of a match on
    it): not a data condition"""
    return c.endswith(' is Ok') and c[:-6].endswith(')')


def path_guard_sets(body, bb, depth=2):
    """guard sets under which bb is entered, one per incoming feasible edge when bb is a join (the must-hold facts at
    a join are the intersection and may say nothing): lists of canonical relation strings"""
    preds = [p for p in body.pred.get(bb, []) if not body.edge_infeasible(p, bb)]
    if len(preds) <= 1 or depth <= 0:
        return [guards_at(body, bb)]
    out = []
    for p in preds:
        on_edge = set(crel(r) for r in facts_to_rels(body.facts_on_edge(p, bb)))
        # a predecessor that is itself a join reached by plain gotos: look one level further
        if not body.edge_facts().get((p, bb)) and len(body.pred.get(p, [])) > 1 and not body.block_writes(p):
            for g in path_guard_sets(body, p, depth - 1):
                out.append(sorted(set(g) | on_edge))
        else:
            out.append(sorted(on_edge))
    return out


def int_width(ty):
    m = re.match(r'^[ui](\d+)$', ty)
    if m:
        return int(m.group(1))
    if ty in ('usize', 'isize'):
        return 64
    return None


def builder_sequence(body, local):
    """ordered list of mutating calls applied to `local` (a Vec/String built in place), in CFG
    order; each item = (bb, method, [canonical args after the receiver], loop_depth, callsite).
    Fails closed if the calls are not totally ordered by dominance."""
    items = []
    for cs in body.calls:
        if not cs.args:
            continue
        a0 = cs.args[0]
        if a0['k'] not in ('copy', 'move'):
            continue
        r = a0['place']
        # receiver is `&mut local` held in a temp: resolve through a single ref assignment
        e = body.op_expr(a0)
        ok = False
        if e[0] == 'ref':
            inner = e[1]
            # compare against the local's own expression
            if inner == body.local_expr(local):
                ok = True
        if not ok:
            continue
        if not a0['place']['ty'].startswith('&mut'):
            continue
        items.append(cs)
    # order by control flow (reverse post-order; body.calls is already in that order)
    pos = {c.bb: i for i, c in enumerate(body.calls)}
    items.sort(key=lambda c: pos.get(c.bb, 1 << 30))
    for x, y in zip(items, items[1:]):
        if not body.dominates(x.bb, y.bb) and body.loop_depth(x.bb) == body.loop_depth(y.bb) == 0:
            raise Unrecognised('builder', 'mutations of _%d in %s are not totally ordered' % (local, body.path))
    return [(c.bb, mir.method_name(c.name), [mir.canon(body.op_expr(a)) for a in c.args[1:]], body.loop_depth(c.bb), c) for c in items]


def byte_pieces(body):
    """ordered pieces of the byte vector a `-> Vec<u8>` body returns, as (method, [canonical args], loop depth):
    either a Vec built in place (with_capacity/new, then push/extend.. — see builder_sequence) and returned, or the
    concatenation of a literal array of slices (`[a, b].concat()`). Returns (pieces, returns_the_buffer) or None."""
    ret = peel(body.ret_expr(), calls=False)
    if ret[0] == 'call' and mir.method_name(ret[1]) == 'concat' and len(ret[2]) == 1:
        arr = peel(ret[2][0])
        if arr[0] == 'aggr' and arr[1] == 'array':
            return [('extend', [mir.canon(v)], 0) for _, v in arr[3]], True
        return None
    vec = [l for l in range(len(body.locals)) if body.local_ty(l) == 'std::vec::Vec<u8>' and
           any(d[0] == 'call' and mir.method_name(d[2].name) in ('with_capacity', 'new') for d in body.defs().get(l, []))]
    if len(vec) != 1:
        return None
    # extend(&[u8]) and extend_from_slice(&[u8]) append the same bytes; extend(I.flat_map(f)) appends f(x) for every x of I
    # in order, like `for x in I { v.extend(f(x)) }`
    seq = []
    for s2 in builder_sequence(body, vec[0]):
        meth, args, depth, cs = s2[1], s2[2], s2[3], s2[4]
        if meth == 'extend_from_slice':
            meth = 'extend'
        if meth == 'extend' and depth == 0 and len(cs.args) == 2:
            e = peel(body.op_expr(cs.args[1]))
            if e[0] == 'call' and mir.method_name(e[1]) == 'flat_map' and 'Iterator' in e[1] and len(e[2]) == 2:
                item = mir.mk_try(('call', '<I as std::iter::Iterator>::next', (e[2][0],), None))
                r = closure_apply(body.prog, e[2][1], [item])
                if r is not None:
                    args, depth = [mir.canon(r)], 1
        seq.append((meth, args, depth))
    return seq, mir.canon(body.ret_expr()) == mir.canon(body.local_expr(vec[0]))


def closures_created(prog, body):
    """bodies of the closures created in `body` (after helper inlining the creating statement may come from a
    helper, so the closure's own path need not be nested under body.path)"""
    out = []
    for i in body.live:
        for st in body.blocks[i]['stmts']:
            if st['k'] == 'assign' and st['rv']['k'] == 'aggr' and st['rv'].get('akind') == 'closure':
                cb = prog.bodies.get(st['rv'].get('closure'))
                if cb is not None and cb not in out:
                    out.append(cb)
    return out


def only_closure(prog, body):
    cl = closures_created(prog, body)
    if len(cl) != 1:
        raise mir.Unrecognised('anchor', 'expected exactly one closure created in %s, found %d' % (body.path, len(cl)))
    return cl[0]


def const_text(prog, body, e):
    """the constant text an expression evaluates to (string/byte literal, format! without run-time arguments, and
    as_bytes()/as_str() views of those), or None"""
    x = peel(e)
    if x[0] == 'bytes':
        try:
            return x[1].decode('utf-8')
        except UnicodeDecodeError:
            return None
    if x[0] == 'str':
        return x[1]
    sv = string_values(prog, body, e)
    if sv is not None and len(sv) == 1:
        return list(sv)[0]
    return None


def header_writes(prog, body, text):
    """write_all calls outside loops whose argument is the constant `text`"""
    return [c for c in body.calls if mir.method_name(c.name) == 'write_all' and body.loop_depth(c.bb) == 0 and len(c.args) == 2 and
            const_text(prog, body, body.op_expr(c.args[1])) == text]


def sequence_elements(prog, body, operand):
    """a Vec value described as (iteration domain, element) canonical strings when it is built element-wise from one
    forward iteration: `I.map(closure).collect()` or `let mut v = Vec::new()/with_capacity(..); for x in I { v.push(E) }`.
    None when the value has another shape."""
    e = peel(body.op_expr(operand))
    if e[0] == 'call' and mir.method_name(e[1]) == 'collect' and e[2]:
        m = peel(e[2][0])
        if m[0] == 'call' and mir.method_name(m[1]) == 'map' and 'Iterator' in m[1] and len(m[2]) == 2 and 'rayon' not in m[1]:
            dom = peel(m[2][0])
            item = mir.mk_try(('call', '<I as std::iter::Iterator>::next', (m[2][0],), None))
            r = closure_apply(prog, m[2][1], [item])
            if r is not None:
                return mir.canon(dom), mir.canon(r)
        return None
    if operand.get('k') in ('move', 'copy') and not operand['place']['p']:
        l = operand['place']['l']
        # follow a whole-local move to the Vec that was built
        for _ in range(4):
            ds = body.defs().get(l, [])
            if len(ds) == 1 and ds[0][0] == 'assign' and ds[0][3]['k'] == 'use' and ds[0][3]['op'].get('k') in ('move', 'copy') and not ds[0][3]['op']['place']['p']:
                l = ds[0][3]['op']['place']['l']
            else:
                break
        ds = body.defs().get(l, [])
        if len(ds) == 1 and ds[0][0] == 'call' and mir.method_name(ds[0][2].name) in ('with_capacity', 'new') and 'Vec' in ds[0][2].name:
            seq = builder_sequence(body, l)
            if len(seq) == 1 and seq[0][1] == 'push' and seq[0][3] == 1:
                doms = [mir.canon(x) for x in loop_bounds(body, seq[0][0]) if x is not None]
                if len(doms) == 1:
                    return doms[0], seq[0][2][0]
    return None


def ctor_inlined(prog, e, names=('EvaluatedScript::new',)):
    """expression with the given plain constructors (`fn new(a, b) -> Self { Self { a, b } }`) replaced by the
    aggregates they build, so `EvaluatedScript::new(addr, pat)` and `EvaluatedScript { address: addr, pattern: pat }`
    compare equal"""
    paths = set()
    for n in names:
        for b in prog.find(n):
            paths.add(b.path)
    return prog.inline_only(e, paths) if paths else e


def rpo(body):
    """reverse post-order of the reachable non-cleanup CFG"""
    seen = set()
    order = []

    def dfs(b):
        stack = [(b, iter(body.succ.get(b, [])))]
        seen.add(b)
        while stack:
            node, it = stack[-1]
            adv = False
            for s2 in it:
                if s2 not in seen:
                    seen.add(s2)
                    stack.append((s2, iter(body.succ.get(s2, []))))
                    adv = True
                    break
            if not adv:
                order.append(node)
                stack.pop()
    dfs(0)
    return order[::-1]


def loop_bounds(body, bb):
    """canonical iteration domains of the loops enclosing bb, outermost first"""
    out = []
    loops = [lp for lp in body.loops() if bb in lp[1]]
    loops.sort(key=lambda lp: -len(lp[1]))
    for h, lb, back in loops:
        dom = None
        for b2 in sorted(lb):
            cs = body.call_at.get(b2)
            if cs and cs.method == 'next' and body.dominates(b2, bb) and body.innermost_loop(b2) and body.innermost_loop(b2)[0] == h:
                dom = peel(body.op_expr(cs.args[0]))
                break
        out.append(dom)
    return out


def read_sequence(body, is_read):
    """ordered list of reader calls in a body: (label, callsite). Order = reverse post-order."""
    order = {b: i for i, b in enumerate(rpo(body))}
    reads = [cs for cs in body.calls if is_read(cs)]
    reads.sort(key=lambda c: order.get(c.bb, 1 << 30))
    labels = {cs.site: str(i) for i, cs in enumerate(reads)}
    return reads, labels
