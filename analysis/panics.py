"""Enumeration of panic sites in MIR bodies (used by C14)."""
import re

import mir
from mir import canon

PANIC_CALL = re.compile(
    r'(^core::panicking::|^std::rt::panic_fmt|^std::rt::begin_panic|::unwrap$|::expect$|::unwrap_err$|::expect_err$|'
    r'::unwrap_unchecked$|Option::<.*>::unwrap$|Result::<.*>::unwrap$|Result::<.*>::expect$|Option::<.*>::expect$|'
    r'ops::Index<.*>>::index$|ops::IndexMut<.*>>::index_mut$|ops::Index(Mut)?<.*> for .*>::index(_mut)?$|::copy_from_slice$|::split_at$|::split_at_mut$|'
    r'RefCell<.*>::borrow(_mut)?$|::swap_remove$|Vec::<.*>::remove$|Vec::<.*>::insert$|::from_str_radix$|'
    r'^core::slice::index::|^core::str::slice_error_fail|^core::option::(unwrap_failed|expect_failed)|^core::result::unwrap_failed|'
    r'::step_by$|::chunks$|::chunks_exact$|::windows$|^std::process::exit$|::assert_failed|^core::panicking::assert_failed)')


class Site:
    __slots__ = ('body', 'bb', 'kind', 'what', 'ops', 'line', 'macros', 'cs', 'term')

    def __init__(self, body, bb, kind, what, ops, line, macros, cs=None, term=None):
        self.body, self.bb, self.kind, self.what, self.ops, self.line, self.macros, self.cs, self.term = body, bb, kind, what, ops, line, macros, cs, term

    @property
    def key(self):
        return '%s|%s|%s' % (self.body.path, self.what, ';'.join(self.ops))

    def where(self):
        return '%s:%d (%s bb%d)' % (self.body.file, self.line, self.body.path, self.bb)


def sites_in(body):
    out = []
    for bb, t in body.asserts():
        kind = t['akind']
        ops = [canon(body.op_expr(o)) for o in t['ops']]
        macros = t['span'].get('macros', []) if t['span'].get('exp') else []
        if kind.startswith('Misaligned') or kind.startswith('NullPointer'):
            what = 'ptrcheck'
        else:
            what = kind
        out.append(Site(body, bb, 'assert', what, ops, t['span']['line'], macros, None, t))
    for cs in body.calls:
        n = cs.name
        if PANIC_CALL.search(n) or PANIC_CALL.search(cs.decl):
            if n == 'std::process::exit':
                continue
            m = mir.method_name(n)
            ops = [canon(a) for a in body.arg_exprs(cs)]
            what = 'call:' + m
            if m == 'index':
                what = 'call:index<%s>' % (cs.gargs[-1] if cs.gargs else '')
            out.append(Site(body, cs.bb, 'call', what, ops, cs.line, cs.macros, cs))
    return out
