"""Positive/negative controls: apply each mutant of mutants/mutants.py to a scratch copy of the repo,
extract facts, evaluate the property's rules and check that the expected key fires (or, for a negative
control, that nothing fires). Scratch copies live under a mkdtemp dir outside /repo and /verif and are
removed immediately. A control whose anchor text is no longer present is reported as `stale`, never as a
violation; a control that does not behave as expected is reported as `dead` (CONTROL-DEAD line) — it says
something about the checker, not about the repository, and therefore does not fail the check."""
import importlib
import os
import re
import shutil
import subprocess
import sys
import tempfile

import facts as factsmod
import mir
import engine

sys.path.insert(0, os.path.join(factsmod.VERIF, 'mutants'))


def scratch_copy(repo):
    d = tempfile.mkdtemp(prefix='rbp-ctl-')
    dst = os.path.join(d, 'repo')
    os.makedirs(dst)
    for name in ('Cargo.toml', 'Cargo.lock', 'src', 'sql'):
        s = os.path.join(repo, name)
        if os.path.isdir(s):
            shutil.copytree(s, os.path.join(dst, name))
        elif os.path.exists(s):
            shutil.copy2(s, os.path.join(dst, name))
    return d, dst


def evaluate(prop, repo_dir, profile='dev'):
    f = factsmod.extract(profile, repo=repo_dir)
    prog = mir.Program(f)
    ctx = engine.Ctx(prop, prog, 'quick', profile)
    mod = importlib.import_module(prop.lower())
    mod.run(ctx)
    # floors
    for rule, n in ctx.floors.items():
        if ctx.count(rule) < n:
            ctx.instances.append(engine.Instance(rule, '%s.%s:vacuous' % (prop, rule), 'vacuous', '', 'floor', None, True, profile))
    known = {k['key'] for k in engine.load_known() if k['property'] == prop and k.get('status') == 'open'}
    return [i for i in ctx.instances if i.verdict != 'ok' and i.key not in known]


def run_one(mut, repo):
    src = os.path.join(repo, mut['file'])
    try:
        text = open(src).read()
    except OSError:
        return 'stale', 'file missing'
    if mut['old'] not in text:
        return 'stale', 'anchor text not present'
    d, dst = scratch_copy(repo)
    try:
        with open(os.path.join(dst, mut['file']), 'w') as fh:
            fh.write(text.replace(mut['old'], mut['new'], 1))
        for (f2, o2, n2) in mut.get('more', []):
            t2 = open(os.path.join(dst, f2)).read()
            if o2 not in t2:
                return 'stale', 'anchor text of a secondary edit not present'
            with open(os.path.join(dst, f2), 'w') as fh:
                fh.write(t2.replace(o2, n2, 1))
        try:
            bad = evaluate(mut['property'], dst)
        except factsmod.FactsError as e:
            return 'stale', 'does not compile: %s' % str(e)[-200:]
        keys = [i.key for i in bad]
        if mut.get('silent'):
            return ('ok', 'silent') if not keys else ('dead', 'negative control raised %s' % keys[:3])
        hit = [k for k in keys if re.search(mut['expect'], k)]
        if hit:
            return 'ok', hit[0]
        return 'dead', 'expected /%s/, got %s' % (mut['expect'], keys[:4])
    finally:
        shutil.rmtree(d, ignore_errors=True)


def run_for(prop, ctxs=None, repo=None):
    import mutants
    repo = repo or factsmod.REPO
    out = []
    for mut in mutants.M:
        if mut['property'] != prop:
            continue
        st, detail = run_one(mut, repo)
        out.append({'id': mut['id'], 'status': st, 'detail': detail, 'negative': bool(mut.get('silent'))})
        if st == 'dead':
            print('CONTROL-DEAD: property=%s control=%s %s' % (prop, mut['id'], detail))
    return {'controls': out, 'fired': sum(1 for o in out if o['status'] == 'ok' and not o['negative']),
            'silent_ok': sum(1 for o in out if o['status'] == 'ok' and o['negative']),
            'stale': sum(1 for o in out if o['status'] == 'stale'), 'dead': sum(1 for o in out if o['status'] == 'dead')}


if __name__ == '__main__':
    sys.path.insert(0, os.path.join(factsmod.VERIF, 'analysis', 'rules'))
    import mutants
    only = sys.argv[1:] if len(sys.argv) > 1 else None
    for mut in mutants.M:
        if only and mut['id'] not in only and mut['property'] not in only:
            continue
        st, detail = run_one(mut, factsmod.REPO)
        print('%-6s %-34s %s' % (st, mut['id'], detail[:150]))
