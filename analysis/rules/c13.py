"""C13 — output depends only on data directory and options, never on scheduling or reruns."""
import re

import mir
import util
from mir import canon, peel, Unrecognised

EXPLANATION = (
    "Static decision of the structural causes of C13: (par) every rayon pipeline in the crate is "
    "Vec::into_par_iter -> indexed adaptors only (map/enumerate/zip/cloned/copied) -> collect::<Vec<_>>, for "
    "which rayon writes item i to slot i; any unordered sink or adaptor is a violation; (pure) the pipeline "
    "closures capture only Copy data by value and nothing reachable from them writes a static, a captured "
    "place or an interior-mutable type; (ambient) clock/environment/RNG APIs are called only from the logger, "
    "the progress/statistics code and the default-directory lookup, never in code reachable from a callback's "
    "on_block/on_complete output path, and no thread pool is configured; (readonly) everything reachable from "
    "ChainStorage::new and the block fetch only reads the data directory (read_dir/metadata/read_link/"
    "File::open/read/seek, DB::open + iteration), and every file-system mutation of the crate is a "
    "File::create/rename in the dump callbacks under dump_folder; (create) tmp writers use the truncating "
    "File::create and final names come from rename; (hashorder) the sites where a hash container is iterated "
    "are exactly the known ones (unspent rows, balances rows, simplestats type lines, order-insensitive index "
    "folds). rayon's indexed-collect ordering and LevelDB are trusted.")
RULE = ("instances = rayon call sites, closure captures and effects, ambient API call sites, FS effect call sites, "
        "hash-iteration sites; non-trivial = membership/ownership obligation; zero-count rules carry positive "
        "controls in mutants/")

INDEXED_ADAPTORS = {'map', 'enumerate', 'zip', 'cloned', 'copied', 'map_with', 'map_init', 'inspect', 'with_min_len', 'with_max_len'}
AMBIENT = r'^(std::time::(Instant|SystemTime)::now|std::env::|rand::|std::thread::(sleep|current|spawn)|std::process::id|dirs::)'
AMBIENT_ALLOWED_BODIES = {
    'blockchain::parser::WorkerStats::new', 'blockchain::parser::BlockchainParser::on_start',
    'blockchain::parser::BlockchainParser::on_complete', 'blockchain::parser::BlockchainParser::print_progress',
    'common::logger::SimpleLogger::format_log', 'common::utils::get_absolute_blockchain_dir',
}
FS_MUT = r'^std::fs::(File::create|File::create_new|File::options|OpenOptions::|rename|remove_file|remove_dir|remove_dir_all|write|copy|create_dir|create_dir_all|hard_link|set_permissions|File::set_len|File::sync)|^std::os::unix::fs::'
FS_READ = r'^std::fs::(read_dir|metadata|read_link|File::open|DirEntry::|FileType::|Metadata::|ReadDir|symlink_metadata|read|read_to_string|canonicalize)|^<std::fs::ReadDir|^std::path::Path::(exists|is_file|is_dir)'
DB_OK = {'rusty_leveldb::DB::open', 'rusty_leveldb::DB::new_iter', '<rusty_leveldb::DBIterator as rusty_leveldb::LdbIterator>::advance',
         '<rusty_leveldb::DBIterator as rusty_leveldb::LdbIterator>::current', '<rusty_leveldb::Options as std::default::Default>::default'}


def rule_par(ctx):
    prog = ctx.prog
    pipelines = {}
    for cs in prog.all_calls():
        if 'rayon' not in cs.name and 'rayon' not in cs.decl:
            continue
        pipelines.setdefault(cs.body.path, []).append(cs)
    ctx.check('par', 'pipelines-found', len(pipelines) == 2, None, 'rayon pipelines in %s' % sorted(pipelines))
    for bp, css in sorted(pipelines.items()):
        b = prog.bodies[bp]
        ctx.touch(b)
        names = [mir.method_name(c.name) for c in css]
        src = [c for c in css if mir.method_name(c.name) in ('into_par_iter', 'par_iter', 'par_iter_mut', 'par_bridge', 'par_chunks', 'into_par_iter')]
        sinks = [c for c in css if mir.method_name(c.name) in ('collect', 'collect_into_vec', 'for_each', 'reduce', 'sum', 'find_any', 'find_first', 'fold', 'try_for_each', 'count', 'min', 'max', 'any', 'all', 'unzip', 'partition')]
        adapt = [c for c in css if c not in src and c not in sinks]
        oks = len(src) == 1 and mir.method_name(src[0].name) == 'into_par_iter' and 'for std::vec::Vec<T>' in src[0].name
        ctx.check('par', 'source:%s' % bp, oks, src[0] if src else b, 'source %s' % [c.name for c in src],
                  bad_detail='parallel source %s is not an indexed Vec::into_par_iter (par_bridge and friends lose the order)' % [c.name for c in src])
        for c in adapt:
            m = mir.method_name(c.name)
            if m in INDEXED_ADAPTORS:
                ctx.ok('par', 'adaptor:%s:%s' % (bp, m), c, 'indexed adaptor %s' % m)
            elif m in ('rev', 'filter', 'filter_map', 'flat_map', 'flatten', 'chain', 'interleave', 'skip_any', 'take_any', 'panic_fuse', 'while_some'):
                ctx.violation('par', 'adaptor:%s:%s' % (bp, m), c, 'adaptor %s does not preserve index -> position' % m)
            else:
                ctx.unrecognised('par', 'adaptor:%s:%s' % (bp, m), c, 'unknown rayon adaptor %s' % c.name)
        oksink = len(sinks) == 1 and (mir.method_name(sinks[0].name) == 'collect' and sinks[0].gargs and sinks[0].gargs[-1].startswith('std::vec::Vec<')
                                      # IndexedParallelIterator::collect_into_vec writes item i to slot i by contract
                                      or mir.method_name(sinks[0].name) == 'collect_into_vec' and 'IndexedParallelIterator' in sinks[0].name)
        ctx.check('par', 'sink:%s' % bp, oksink, sinks[0] if sinks else b, 'sink %s' % [(mir.method_name(c.name), c.gargs[-1:]) for c in sinks],
                  bad_detail='parallel sink %s: only collect::<Vec<_>> of an indexed pipeline keeps item i at position i' % [(mir.method_name(c.name), c.gargs[-1:]) for c in sinks])
        # the collected vector is what gets stored (no sort/shuffle afterwards)
        post = [c for c in b.calls if mir.method_name(c.name) in ('sort', 'sort_by', 'sort_by_key', 'sort_unstable', 'reverse', 'swap', 'dedup', 'retain', 'shuffle')]
        ctx.check('par', 'no-reordering-after-collect:%s' % bp, not post, b, 'no reordering of the collected Vec: %s' % [mir.method_name(c.name) for c in post])
    # no thread-pool configuration
    tp = [cs for cs in prog.all_calls() if re.search(r'ThreadPoolBuilder|rayon::spawn|rayon::scope|rayon::join', cs.name)]
    ctx.check('par', 'no-pool-configuration', not tp, None, 'thread pool configuration/spawn sites: %s' % [c.where() for c in tp])


def rule_pure(ctx):
    prog = ctx.prog
    clos = []
    for cs in prog.all_calls():
        if 'rayon' in cs.name and mir.method_name(cs.name) in INDEXED_ADAPTORS | {'for_each', 'filter', 'filter_map', 'fold', 'reduce'}:
            for a in cs.args[1:]:
                e = peel(cs.body.op_expr(a))
                if e[0] == 'aggr' and e[1] == 'closure':
                    clos.append((cs, e))
    ctx.check('pure', 'closures-found', len(clos) == 2, None, '%d pipeline closures' % len(clos))
    for cs, e in clos:
        cb = prog.bodies[e[2]]
        ctx.touch(cb)
        caps = [(canon(v), cs.body.local_ty(0)) for _, v in e[3]]
        # capture types from the closure's own signature: upvars are fields of param 1
        cap_tys = []
        t1 = cb.local_ty(1)
        for _, v in e[3]:
            ve = peel(v, calls=False)
            ty = None
            if ve[0] == 'param':
                ty = cs.body.local_ty(ve[2])
            cap_tys.append((canon(v), ty))
        okc = all(ty in ('u8', 'u16', 'u32', 'u64', 'usize', 'bool', 'i32', 'i64') for _, ty in cap_tys)
        ctx.check('pure', 'captures-copy-data:%s' % cb.path, okc, cs, 'captures %s' % cap_tys,
                  bad_detail='closure captures %s: only plain Copy scalars may be shared between worker threads' % cap_tys)
        ctx.check('pure', 'closure-by-ref-env-immutable:%s' % cb.path, not t1.startswith('&mut'), cs, 'closure environment type %s' % t1[:60])
        reach = prog.reachable_bodies([cb])
        bad = []
        for rb in reach:
            for c2 in rb.calls:
                if re.search(r'(Mutex|RwLock|RefCell|Cell|Atomic\w+|OnceCell|OnceLock|LazyLock|thread_local|Condvar|mpsc)', c2.name) and 'log' not in ''.join(c2.macros):
                    bad.append((rb.path, c2.name))
            for i in rb.live:
                for st in rb.blocks[i]['stmts']:
                    if st['k'] == 'assign' and st['rv']['k'] == 'tls':
                        bad.append((rb.path, 'thread-local ' + st['rv']['path']))
                    if st['k'] == 'assign' and st['rv']['k'] in ('use',) and st['rv']['op']['k'] == 'const' and isinstance(st['rv']['op'].get('val'), dict) and 'static' in st['rv']['op']['val']:
                        nm = st['rv']['op']['val']['static']
                        if not nm.startswith('log::') and 'MAX_LOG_LEVEL' not in nm:
                            bad.append((rb.path, 'static ' + nm))
            # stores through captured (upvar) places
            if rb is cb:
                for bb, idx, place, rv, st in rb.stores():
                    root, ch = mir.field_chain(rb.place_expr(place))
                    if root[0] == 'param' and root[2] == 1:
                        bad.append((rb.path, 'store to captured %s' % ch))
        ctx.check('pure', 'no-shared-mutable-state:%s' % cb.path, not bad, cb, '%d bodies reachable from the closure touch no shared mutable state' % len(reach),
                  bad_detail='shared mutable state reachable from a parallel closure: %s' % bad[:5])


def rule_ambient(ctx):
    prog = ctx.prog
    sites = [cs for cs in prog.all_calls() if re.search(AMBIENT, cs.name)]
    for cs in sites:
        ok = cs.body.path in AMBIENT_ALLOWED_BODIES
        ctx.check('ambient', 'site:%s:%s' % (cs.body.path, mir.short(cs.name)), ok, cs, '%s in %s' % (cs.name, cs.body.path),
                  bad_detail='%s is called in %s: time/environment must not influence results (allowed only in logger/progress code)' % (cs.name, cs.body.path))
    # none of the callback bodies (and what they reach, except the log macros) touches ambient APIs
    roots = [b for b in prog.bodies.values() if b.impl_trait and b.impl_trait.endswith('callbacks::Callback') and b.path.split('::')[-1] in ('on_block', 'on_complete', 'on_start')]
    reach = prog.reachable_bodies(roots)
    bad = [(rb.path, c.name) for rb in reach for c in rb.calls if re.search(AMBIENT, c.name)]
    ctx.check('ambient', 'callbacks-free-of-ambient-input', not bad, None, '%d bodies reachable from the callbacks call no clock/env/RNG API' % len(reach), bad_detail='%s' % bad)
    # the block construction path (reader, script evaluation) likewise
    roots2 = prog.find('ChainStorage::get_block', 'ChainStorage::new')
    reach2 = prog.reachable_bodies(roots2)
    bad2 = [(rb.path, c.name) for rb in reach2 for c in rb.calls if re.search(AMBIENT, c.name)]
    ctx.check('ambient', 'parser-free-of-ambient-input', not bad2, None, '%d bodies reachable from the block fetch/index loader call no clock/env/RNG API' % len(reach2), bad_detail='%s' % bad2)
    # the home-dir lookup is used only when no -d option is given
    pa = prog.one('parse_args')
    gd = [c for c in pa.calls if mir.method_name(c.name) == 'get_absolute_blockchain_dir']
    ctx.check('ambient', 'home-dir-only-as-default', len(gd) == 1 and any(' is None' in g and 'blockchain-dir' in g for g in util.guards_at(pa, gd[0].bb)), pa, 'default directory lookup only when -d is absent')


def rule_readonly(ctx):
    prog = ctx.prog
    roots = prog.find('ChainStorage::get_block', 'ChainStorage::new')
    reach = prog.reachable_bodies(roots)
    for rb in reach:
        ctx.touch(rb)
    n_read = 0
    for rb in reach:
        for c in rb.calls:
            if c.local:
                continue
            if re.search(FS_MUT, c.name) or re.search(r'Write>::(write|write_all|flush)|::write_all$|::set_len$', c.name) and 'fmt' not in c.name and 'String' not in c.name:
                if any(m in mir.LOG_MACROS for m in c.macros):
                    continue
                ctx.violation('readonly', 'mutation-in-parser:%s:%s' % (rb.path, mir.short(c.name)), c, '%s in the data-directory code path' % c.name)
            elif re.search(FS_READ, c.name):
                n_read += 1
                ctx.ok('readonly', 'read-only-api:%s:%s' % (rb.path.split('::')[-1], mir.short(c.name)), c, c.name)
            elif 'rusty_leveldb' in c.name:
                ctx.check('readonly', 'leveldb-api:%s' % mir.short(c.name), c.name in DB_OK, c, c.name,
                          bad_detail='%s: only DB::open + iteration may touch the block index' % c.name)
    # blk files opened read-only
    op = prog.one('BlkFile::open')
    fo = [c for c in op.calls if 'std::fs::' in c.name]
    ctx.check('readonly', 'blk-files-opened-read-only', [c.name for c in fo] == ['std::fs::File::open'], op, 'BlkFile::open uses %s' % [c.name for c in fo])
    # every FS mutation of the crate belongs to the dump callbacks: it is reachable (without virtual dispatch) only
    # from methods of CsvDump / UnspentCsvDump / Balances — wherever the helper that performs it lives
    DUMPS = ('CsvDump', 'UnspentCsvDump', 'Balances')
    for cs in prog.all_calls():
        if re.search(FS_MUT, cs.name):
            b = cs.body
            # nearest owners: walk up the direct callers from the site until a method of some type is reached; a free
            # function without callers (main) owns the site itself
            owners = set()
            seen = set()
            work = [b]
            while work:
                x = work.pop()
                if x.path in seen:
                    continue
                seen.add(x.path)
                if x.impl_self:
                    owners.add(x.impl_self.split('::')[-1])
                    continue
                cal = [c.body for c in prog.callers_of(x)]
                if not cal:
                    owners.add('fn ' + x.path.split('::')[-1])
                work.extend(cal)
            owners = sorted(owners)
            okb = bool(owners) and all(o in DUMPS for o in owners)
            ctx.check('readonly', 'fs-mutation-owner:%s:%s' % (mir.short(cs.name), '+'.join(owners)), okb, cs, '%s is reached only from %s' % (cs.name, owners),
                      bad_detail='%s in %s is reachable from %s: only the dump callbacks may create/rename files' % (cs.name, b.path, owners))
    # leveldb is not touched anywhere else
    other = [cs for cs in prog.all_calls() if 'rusty_leveldb' in cs.name and cs.body.path != 'blockchain::parser::index::get_block_index']
    ctx.check('readonly', 'leveldb-only-in-loader', not other, None, 'rusty_leveldb used outside the loader: %s' % [c.where() for c in other])


def rule_create(ctx):
    prog = ctx.prog
    api = r'^std::fs::(File::create|File::create_new|File::options|OpenOptions::)'
    found = 0
    for cb in ('callbacks::csvdump::CsvDump', 'callbacks::unspentcsvdump::UnspentCsvDump', 'callbacks::balances::Balances'):
        nb = prog.find('<%s as callbacks::Callback>::new' % cb)
        if not nb:
            continue
        found += 1
        opens = [c for rb in prog.reachable_bodies(nb) for c in rb.calls if re.search(api, c.name)]
        ctx.check('create', 'truncating-create:%s' % cb.split('::')[-1], bool(opens) and all(c.name == 'std::fs::File::create' for c in opens), opens[0] if opens else nb[0],
                  'tmp files of %s are opened with the truncating File::create' % cb.split('::')[-1],
                  bad_detail='%s: stale tmp content from an earlier run would survive (append/create_new/no truncate)' % sorted(set(c.name for c in opens)))
    ctx.check('create', 'three-create-sites', found == 3, None, '%d dump callbacks create their tmp files in the constructor' % found)
    other = [cs for cs in prog.all_calls() if re.search(api, cs.name) and not any(cs.body in prog.reachable_bodies(prog.find('<%s as callbacks::Callback>::new' % cb))
                                                                                 for cb in ('callbacks::csvdump::CsvDump', 'callbacks::unspentcsvdump::UnspentCsvDump', 'callbacks::balances::Balances'))]
    ctx.check('create', 'no-other-create', not other, other[0] if other else None, 'no file is created outside the three constructors')
    rn = [cs for cs in prog.all_calls() if cs.name == 'std::fs::rename']
    owners = sorted(set((cs.body.impl_self or cs.body.path).split('::')[-1] for cs in rn))
    ctx.check('create', 'final-names-by-rename', owners == ['Balances', 'CsvDump', 'UnspentCsvDump'], None, '%d rename site(s) in %s' % (len(rn), owners))


def rule_stale(ctx):
    """files already present in the dump folder do not change the result: the dump callbacks never inspect the
    file system (no directory listing, no existence/metadata test, no open-for-read), and what they rename is named
    by constants, not discovered"""
    prog = ctx.prog
    cbs = sorted(set(b.impl_self for b in prog.bodies.values() if b.impl_trait and b.impl_trait.endswith('callbacks::Callback') and b.impl_self))
    for cb in cbs:
        roots = [b for b in prog.bodies.values() if b.impl_self == cb]
        reach = prog.reachable_bodies(roots)
        bad = []
        for rb in reach:
            ctx.touch(rb)
            for c in rb.calls:
                if re.search(FS_READ, c.name) or re.search(r'^std::path::Path::(try_exists|metadata|read_dir|symlink_metadata|is_symlink)', c.name):
                    bad.append(c)
        ctx.check('stale', 'never-inspects-the-dump-folder:%s' % cb.split('::')[-1], not bad, bad[0] if bad else None,
                  '%d bodies of %s read nothing from the file system' % (len(reach), cb.split('::')[-1]),
                  bad_detail='%s: the result of %s depends on files that happen to be present (stale *.tmp files or earlier results)'
                  % (', '.join('%s in %s' % (c.name, c.body.path.split('::')[-1]) for c in bad[:3]), cb.split('::')[-1]))
    for cs in prog.all_calls():
        if cs.name != 'std::fs::rename':
            continue
        src = util.string_values(prog, cs.body, cs.body.op_expr(cs.args[0]))
        ctx.check('stale', 'rename-source-is-constant:%s' % (cs.body.impl_self or cs.body.path).split('::')[-1], src is not None and all(x.endswith('.tmp') for x in src), cs,
                  'renames %s' % sorted(src or []), bad_detail='the renamed file is not one of a fixed list of own tmp files: %s' % mir.show(cs.body.op_expr(cs.args[0]))[:200])


HASH_ITER_ALLOWED = {
    ('<callbacks::unspentcsvdump::UnspentCsvDump as callbacks::Callback>::on_complete', 'iter'): 'row set of the unspent dump (order unspecified by the property)',
    ('<callbacks::balances::Balances as callbacks::Callback>::on_complete', 'values'): 'grouping by address is commutative (u64 addition)',
    ('<callbacks::balances::Balances as callbacks::Callback>::on_complete', 'iter'): 'row set of the balances dump (order unspecified by the property)',
    ('callbacks::simplestats::SimpleStats::print_transaction_types', 'iter'): 'order of the per-type lines varies, every figure is identical',
    ('blockchain::parser::index::ChainIndex::new', 'iter'): 'max-fold per file: order-insensitive',
    ('blockchain::parser::index::ChainIndex::new', 'keys'): 'maximum over keys: order-insensitive',
}


def rule_hashorder(ctx):
    prog = ctx.prog
    seen = set()
    for cs in prog.all_calls():
        m = mir.method_name(cs.name)
        if m not in ('iter', 'iter_mut', 'values', 'values_mut', 'keys', 'into_iter', 'drain', 'into_keys', 'into_values', 'retain'):
            continue
        hay = cs.name + ' ' + cs.rfull + ' ' + ' '.join(cs.gargs)
        if not re.search(r'HashMap|HashSet|hash_map|hash_set', hay):
            continue
        if m == 'into_iter':
            selfty = cs.gargs[0] if cs.gargs else ''
            if not re.match(r'^&?(mut )?std::collections::(HashMap|HashSet)<', selfty):
                continue  # identity into_iter on an iterator that was counted where it was created
        if m == 'retain':
            continue  # predicate-based, order-insensitive
        if m == 'into_iter':
            # `for x in &map` is map.iter(), `for x in &mut map` is map.iter_mut()
            selfty = cs.gargs[0] if cs.gargs else ''
            m = 'iter_mut' if selfty.startswith('&mut ') else ('iter' if selfty.startswith('&') else m)
        key = (cs.body.path, m)
        seen.add(key)
        ok = key in HASH_ITER_ALLOWED
        ctx.check('hashorder', 'site:%s:%s' % (cs.body.path, m), ok, cs, HASH_ITER_ALLOWED.get(key, ''),
                  bad_detail='hash-container iteration (%s) in %s can leak a per-run random order into the output' % (m, cs.body.path))
    ctx.check('hashorder', 'known-sites-present', seen == set(HASH_ITER_ALLOWED), None, 'hash iteration sites: %s' % sorted(seen),
              bad_detail='expected %s, found %s' % (sorted(HASH_ITER_ALLOWED), sorted(seen)))


def run(ctx):
    ctx.trusted += ['rayon: collect of an indexed parallel iterator preserves order', 'rusty-leveldb open/iteration does not change key/value content']
    for r, f in (('par', rule_par), ('pure', rule_pure), ('ambient', rule_ambient), ('readonly', rule_readonly), ('create', rule_create), ('stale', rule_stale), ('hashorder', rule_hashorder)):
        ctx.guard(r, f)
    ctx.floor('par', 10)
    ctx.floor('pure', 7)
    ctx.floor('ambient', 10)
    ctx.floor('readonly', 20)
    ctx.floor('create', 5)
    ctx.floor('stale', 8)
    ctx.floor('hashorder', 7)
