"""C14 — no script or witness content can abort a run or disturb other rows."""
import re

import mir
import util
import panics
import intervals
from intervals import Intervals, Summary, ISIZE_MAX, tmax, BITS
from mir import canon, peel, Unrecognised

EXPLANATION = (
    "Static inventory and discharge of every panic site that script or witness bytes can reach: region (a) = "
    "all panic sites (MIR Assert terminators: bounds, overflow, div/rem-by-zero; calls to panicking "
    "primitives: unwrap/expect, Index impls, panic!/unreachable!/assert! expansions) in the bodies reachable "
    "from script::eval_from_bytes; region (b) = panic sites elsewhere whose operands are tainted by a script, "
    "its length, a witness item or an EvaluatedScript. Each site is discharged by exactly one of: guard (a "
    "must-hold edge fact, under the struct invariant n_bytes == bytes.len(), implies the index/range is in "
    "bounds, via an affine prover); range (upper-bound interval analysis over the MIR with exact big "
    "integers, loop guards re-applied at every loop-body entry and callee summaries for the cursor, shows "
    "the arithmetic fits its type); callee-guard (the site's own guard contradicts the facts that hold at "
    "its unique call site); struct-invariant (Stack.pattern is a function of Stack.elements fixed by the "
    "template that matched); table (a frozen, justified entry whose precondition is re-checked "
    "mechanically). Any new site, any site whose discharge no longer goes through, fails the check. Both "
    "dev and release MIR are analysed in the thorough tier. The non-interference half of C14 (other rows "
    "unchanged) is not decided.")
RULE = ("instances = panic sites (one per MIR Assert terminator / panicking call) in regions (a) and (b); every "
        "site is non-trivial (it carries a proof obligation); distinct by (function, kind, canonical operands)")

EV = "blockchain::proto::script::custom::ScriptEvaluator::<'a>::"
ENTRY = 'blockchain::proto::script::eval_from_bytes'
TAINT = re.compile(r'script_sig|script_pubkey|script_len|\.script\b|script\.|\.pattern|\.address|witness|ScriptPattern|tx_first_occs|n_tx_types')


def region_a(prog):
    roots = prog.find('script::eval_from_bytes')
    return prog.reachable_bodies(roots)


# --- affine prover over must-hold facts ------------------------------------------------------------------

def canon_inv(s, inv):
    for a, b in inv:
        s = s.replace(a, b)
    return s


def aff(e):
    base, k, sat = util.affine(e)
    return (canon(base) if base is not None else None), k


def prove_le(a, b, rels, inv, strict=False):
    """prove a <= b (or a < b) from normalised relations `rels` (('lt'|'le', x, y)) under textual
    invariants `inv` (pairs of canonical strings considered equal)."""
    ba, ka = aff(a)
    bb_, kb = aff(b)
    ba = canon_inv(ba, inv) if ba else ba
    bb_ = canon_inv(bb_, inv) if bb_ else bb_
    need = 1 if strict else 0
    # trivial: same base
    if ba == bb_ and ka + need <= kb:
        return 'same-base: %s%+d %s %s%+d' % (ba, ka, '<' if strict else '<=', bb_, kb)
    if ba is None and bb_ is None:
        return 'constants' if ka + need <= kb else None
    for r in rels:
        if r[0] not in ('lt', 'le', 'eq'):
            continue
        bx, kx = aff(r[1])
        by, ky = aff(r[2])
        bx = canon_inv(bx, inv) if bx else bx
        by = canon_inv(by, inv) if by else by
        slack = 1 if r[0] == 'lt' else 0
        # fact: bx + kx + slack <= by + ky
        if bx == ba and by == bb_:
            # a + (kx - ka) + slack <= b + (ky - kb)   =>  a + [(kx-ka)+slack-(ky-kb)] <= b
            d = (kx - ka) + slack - (ky - kb)
            if d >= need:
                return 'fact %s' % util.rel_str(r)
        if r[0] == 'eq' and ((bx == ba and by == bb_) or (bx == bb_ and by == ba)):
            pass
    return None


def range_facts(body, e):
    """facts implied by loop variables: v = each(Range{start: S, end: E}) gives S <= v < E"""
    out = []
    for x in mir.walk(e):
        if x[0] == 'try':
            if True:
                c = peel(x[1], calls=False)
                if c[0] == 'call' and mir.method_name(c[1]) == 'next' and c[2]:
                    it = peel(c[2][0])
                    if it[0] == 'aggr' and it[2].endswith('ops::Range::Range'):
                        f = dict(it[3])
                        out.append(('lt', x, f['end']))
                        out.append(('le', f['start'], x))
    return out


# --- summaries ------------------------------------------------------------------------------------------------

def field_delta_summary(prog, body):
    """syntactic effect of a &mut self method on integer fields: {field: max added constant}; None if a
    store is not of the form field + const or two stores can happen on one path"""
    delta = {}
    stores = util.self_field_stores(body)
    for bb, ch, val, st in stores:
        if len(ch) != 1:
            return None
        base, k, sat = util.affine(val)
        if base is None or canon(base) != 'self.%s' % ch[0] or k < 0:
            return None
        delta[ch[0]] = max(delta.get(ch[0], 0), k)
    # at most one store per field per path
    by_f = {}
    for bb, ch, val, st in stores:
        by_f.setdefault(ch[0], []).append(bb)
    for f, bbs in by_f.items():
        for x in bbs:
            for y in bbs:
                if x != y and y in body.reach_from(x):
                    return None
    # callees that receive self mutably
    for cs in body.calls:
        if cs.local and cs.args:
            a0 = cs.args[0]
            if a0['k'] in ('copy', 'move') and a0['place']['ty'].startswith('&mut') and canon(body.op_expr(a0)) == 'self':
                return None
    return delta


def const_param_ub(prog, body, idx):
    vals = []
    for cs in prog.callers_of(body):
        if idx - 1 >= len(cs.args):
            return None
        v = mir.int_value(cs.body.op_expr(cs.args[idx - 1]))
        if v is None:
            return None
        vals.append(v)
    return max(vals) if vals else None


class Env:
    def __init__(self, ctx):
        self.ctx = ctx
        self.prog = ctx.prog
        self.summaries = {}
        self.analyses = {}
        self.mem_inv = {}

    def build(self):
        prog = self.prog
        # struct invariant: n_bytes == len(bytes), both immutable
        nws = prog.find(EV + 'new')
        self.inv_ok = False
        if len(nws) == 1:
            nw = nws[0]
            ok_ctor = canon(nw.ret_expr()) == 'ScriptEvaluator::ScriptEvaluator{bytes: a1, n_bytes: len(a1), ip: 0}'
            wr = [(b.path, ch) for b in prog.bodies.values() if b.impl_self and 'ScriptEvaluator' in b.impl_self
                  for bb, ch, val, st in util.self_field_stores(b) if ch[0] in ('n_bytes', 'bytes')]
            ctors = [b.path for b in prog.bodies.values() for i in b.live for st in b.blocks[i]['stmts']
                     if st['k'] == 'assign' and st['rv']['k'] == 'aggr' and st['rv'].get('adt', '').endswith('ScriptEvaluator')]
            self.inv_ok = ok_ctor and not wr and ctors == [nw.path]
            self.ctx.check('invariant', 'ScriptEvaluator:n_bytes==bytes.len()', self.inv_ok, nw,
                           'constructed only in new() as {bytes, n_bytes: bytes.len(), ip: 0}; n_bytes/bytes never written afterwards')
        self.text_inv = [('self.n_bytes', 'len(self.bytes)'), ('PtrMetadata(self.bytes)', 'len(self.bytes)')] if self.inv_ok else []
        self.mem_inv = {'self.n_bytes': ISIZE_MAX} if self.inv_ok else {}
        # bottom-up over the call graph of region (a): callee summaries first
        region = region_a(prog)
        rset = set(b.path for b in region)
        order = []
        seen = set()

        def dfs(b):
            if b.path in seen:
                return
            seen.add(b.path)
            for c in prog.callees(b):
                if c.path in rset:
                    dfs(c)
            order.append(b)
        for b in region:
            dfs(b)
        self.entry_note = ''
        small = []
        for rnd in (1, 2):
            for b in order:
                param_ub = {}
                for idx in range(1, b.arg_count + 1):
                    if intervals.tmax(b.local_ty(idx)) is not None:
                        v = const_param_ub(prog, b, idx)
                        if v is not None:
                            param_ub[idx] = v
                            if rnd == 2:
                                small.append((b, idx, v))
                entry = {}
                callers = prog.callers_of(b)
                if rnd == 2 and len(callers) == 1 and callers[0].body.path in self.analyses and callers[0].args:
                    cs = callers[0]
                    a0 = cs.args[0]
                    if a0['k'] in ('copy', 'move') and canon(cs.body.op_expr(a0)) == 'self' and b.impl_self == cs.body.impl_self:
                        st = self.analyses[cs.body.path].local_at.get(cs.bb, {})
                        entry = {k: v for k, v in st.items() if k[0] == 'm'}
                        if entry:
                            self.entry_note += '%s entered with %s; ' % (b.path.split('::')[-1], {k[1]: v for k, v in entry.items()})
                minv = self.mem_inv if (b.impl_self and 'ScriptEvaluator' in b.impl_self) else {}
                an = Intervals(prog, b, param_ub=param_ub, summaries=dict(self.summaries), mem_invariants=minv).run(entry)
                self.analyses[b.path] = an
                takes_mut_self = b.arg_count >= 1 and b.local_ty(1).startswith('&mut')
                fd = field_delta_summary(prog, b) if takes_mut_self else {}
                self.summaries[b.path] = Summary(ret_ub=self.ret_payload_ub(b, an), field_delta=fd or {}, writes_unknown=(fd is None))
        for b, idx, v in small:
            self.ctx.ok('invariant', 'const-param:%s#%d<=%d' % (b.path.split('::')[-1], idx, v), b,
                        'every caller passes a constant <= %d for parameter %d (used as a bound by the interval analysis)' % (v, idx))

    def ret_payload_ub(self, body, an):
        ub = None
        for bb in body.exits():
            st = an.local_at.get(bb, {})
            v = st.get(('p', 0), st.get(('l', 0)))
            if v is None:
                # try the blocks that define _0 as Ok(x)
                continue
            ub = v if ub is None else max(ub, v)
        if ub is None:
            for d in body.ret_defs():
                if d[0] == 'assign' and d[3]['k'] == 'aggr' and d[3].get('variant') == 'Ok':
                    st = an.local_at.get(d[1], {})
                    v = st.get(('p', 0))
                    if v is not None:
                        ub = v if ub is None else max(ub, v)
        return ub

    def analysis(self, body):
        if body.path not in self.analyses:
            self.analyses[body.path] = Intervals(self.prog, body, summaries=dict(self.summaries), mem_invariants=self.mem_inv if (body.impl_self and 'ScriptEvaluator' in body.impl_self) else {}).run()
        return self.analyses[body.path]


# --- discharge ---------------------------------------------------------------------------------------------------

def op_type(t, i):
    o = t['ops'][i]
    if o['k'] in ('copy', 'move'):
        return o['place']['ty']
    return o['ty']


def discharge_overflow(env, s):
    an = env.analysis(s.body)
    ops = an.assert_ub.get(s.bb)
    if ops is None:
        return None
    t = s.term
    ty = op_type(t, 0)
    mx = tmax(ty)
    if mx is None:
        return None
    kind = s.what
    if kind == 'Overflow(Add)':
        tot = ops[0] + ops[1]
        return ('range', 'ub(%s)=%d + ub(%s)=%d = %d <= %s::MAX' % (s.ops[0][:40], ops[0], s.ops[1][:40], ops[1], tot, ty)) if tot <= mx else None
    if kind == 'Overflow(Mul)':
        tot = ops[0] * ops[1]
        return ('range', 'ub %d * %d = %d <= %s::MAX' % (ops[0], ops[1], tot, ty)) if tot <= mx else None
    if kind in ('Overflow(Shl)', 'Overflow(Shr)'):
        bits = BITS.get(ty.strip())
        return ('range', 'shift amount <= %d < %d bits' % (ops[1], bits)) if bits and ops[1] < bits else None
    if kind == 'Overflow(Sub)':
        return None
    return None


def rels_at(body, bb):
    return [r for r in util.facts_to_rels(body.facts_at(bb))]


def discharge_bounds(env, s):
    """BoundsCheck [len, idx]: prove idx < len"""
    b = s.body
    t = s.term
    ln = b.op_expr(t['ops'][0])
    ix = b.op_expr(t['ops'][1])
    rels = rels_at(b, s.bb) + range_facts(b, ix)
    inv = env.text_inv if (b.impl_self and 'ScriptEvaluator' in b.impl_self) else []
    # len expression: PtrMetadata(x) == len(x)
    why = prove_le(ix, ln, rels, inv + [('PtrMetadata(', 'len(')], strict=True)
    if why:
        return ('guard', 'index < len by %s' % why)
    # equal-length fact: len(a1) == len(a2) and idx < len(a2)
    for r in rels:
        if r[0] == 'eq':
            x, y = canon_inv(canon(r[1]), [('PtrMetadata(', 'len(')]), canon_inv(canon(r[2]), [('PtrMetadata(', 'len(')])
            lnc = canon_inv(canon(ln), [('PtrMetadata(', 'len(')])
            other = y if x == lnc else (x if y == lnc else None)
            if other:
                for r2 in rels:
                    if r2[0] == 'lt' and canon(r2[1]) == canon(ix) and canon_inv(canon(r2[2]), [('PtrMetadata(', 'len(')]) == other:
                        return ('guard', 'index < %s == len' % other)
    # template match: match_stack_pattern(x, [k elems]) true => len(x) == k
    iv = mir.int_value(ix)
    if iv is not None:
        for f in b.facts_at(s.bb):
            if f[0] == 'cond' and f[2] is True:
                e = peel(f[1], calls=False)
                if e[0] == 'call' and mir.method_name(e[1]) == 'match_stack_pattern':
                    arr = peel(e[2][1])
                    subj = canon(e[2][0])
                    if arr[0] == 'aggr' and arr[1] == 'array' and 'PtrMetadata(%s)' % subj == canon(ln) and iv < len(arr[3]) and env.matcher_ok:
                        return ('guard', 'template of %d elements matched (equal length proven for the matcher) and index %d < %d' % (len(arr[3]), iv, len(arr[3])))
    return None


def discharge_slice_index(env, s):
    """Index<Range/RangeFrom> on a slice: start <= end <= len / start <= len"""
    b = s.body
    cs = s.cs
    base = b.op_expr(cs.args[0])
    rng = peel(b.op_expr(cs.args[1]), calls=False)
    rels = rels_at(b, s.bb)
    inv = env.text_inv if (b.impl_self and 'ScriptEvaluator' in b.impl_self) else []
    ln = ('call', 'len', (base,), None)
    lnc = 'len(%s)' % canon(base)
    if rng[0] != 'aggr':
        return None
    f = dict(rng[3])
    if rng[2].endswith('RangeFrom::RangeFrom'):
        why = prove_le(f['start'], ('call', 'core::slice::<impl [T]>::len', (base,), ('x', 0)), rels, inv)
        if why:
            return ('guard', 'start <= len by %s' % why)
        return None
    if rng[2].endswith('ops::Range::Range'):
        e_ok = prove_le(f['end'], ('call', 'core::slice::<impl [T]>::len', (base,), ('x', 0)), rels, inv)
        # start <= end: end = start + nonneg
        sb, sk = aff(f['start'])
        eb, ek = aff(f['end'])
        s_ok = None
        if sb == eb and sk <= ek:
            s_ok = 'same base'
        else:
            ee = peel(f['end'], calls=False)
            if ee[0] == 'bin' and ee[1] == 'Add' and canon(ee[2]) == canon(f['start']):
                s_ok = 'end = start + unsigned'
        if mir.int_value(f['start']) is not None and mir.int_value(f['end']) is not None:
            # constant range on a fixed-size value
            ty = cs.args[0]['place']['ty'] if cs.args[0]['k'] in ('copy', 'move') else ''
            if 'sha256d::Hash' in ty and mir.int_value(f['end']) <= 32 and mir.int_value(f['start']) <= mir.int_value(f['end']):
                return ('infallible', 'constant range %d..%d of a 32-byte hash' % (mir.int_value(f['start']), mir.int_value(f['end'])))
        if e_ok and s_ok:
            return ('guard', 'end <= len by %s; start <= end (%s)' % (e_ok, s_ok))
    return None


def discharge_callee_guard(env, s):
    """the site's guards contradict the facts holding at its unique call site"""
    prog = env.prog
    b = s.body
    callers = prog.callers_of(b)
    if len(callers) != 1:
        return None
    cs = callers[0]
    cb = cs.body
    mapping = {i + 1: cb.op_expr(a) for i, a in enumerate(cs.args)}
    caller_facts = [mir.strip_sites(mir.subst(f, {})) for f in cb.facts_at(cs.bb)]
    for f in b.facts_at(s.bb):
        g = mir.strip_sites((f[0], mir.subst(f[1], mapping)) + tuple(f[2:]))
        for cf in caller_facts:
            if cf[0] == g[0] == 'cond' and canon(cf[1]) == canon(g[1]) and cf[2] != g[2]:
                return ('callee-guard', 'site needs %s%s but the only caller (%s) calls under %s%s' % ('' if f[2] else '!', canon(f[1]), cb.path.split('::')[-1], '' if cf[2] else '!', canon(cf[1])))
            if {cf[0], g[0]} == {'eq', 'ne'} and canon(cf[1]) == canon(g[1]):
                eqf, nef = (cf, g) if cf[0] == 'eq' else (g, cf)
                if set(eqf[2]) <= set(nef[2]):
                    return ('callee-guard', 'site needs %s notin %s, the only caller passes it in %s' % (canon(g[1]), list(nef[2]), list(eqf[2])))
    return None


TABLE = {
    # key prefix (function | what | operand pattern) -> (reason, precondition checker name)
    'p2pk_to_string|call:panic|"internal error: entered unreachable code"':
        ('is_p2pk(script) holds at the only call site; rust-bitcoin 0.32.5 is_p2pk accepts exactly `<push 33|65 bytes> OP_CHECKSIG`, whose first instruction decodes to Ok(PushBytes) — the `_` arm is dead', 'caller_is_p2pk'),
    'process_tx_pattern|Overflow(Add)|or_insert(entry(self.n_tx_types':
        ('one increment per processed output; 2^64 outputs cannot be processed', 'none'),
    'process_tx_pattern|Overflow(Add)|get_mut(self.n_tx_types':
        ('one increment per processed output; 2^64 outputs cannot be processed', 'none'),
    'insert_unspents|Overflow(Add)|sum(1);1':
        ('one increment per output of one transaction; bounded by the block size', 'none'),
    'print_transaction_types|call:unwrap|get(self.tx_first_occs':
        ('every key of n_tx_types was inserted together with a tx_first_occs entry (process_tx_pattern is the only writer of both)', 'first_occ_pairing'),
    'Balances as callbacks::Callback>::on_complete|Overflow(Add)|or_insert(entry(new(), each(values(self.unspents)).address), 0);each(values(self.unspents)).value':
        ('the script only selects the bucket; the summed quantities are output amounts of a stored chain (total supply < 2^64 units for every supported coin)', 'none'),
    'TxInput as blockchain::proto::ToRaw>::to_bytes|Overflow(Add)|(36 + 5);(self.script_len.value as usize)':
        ('script_len.value is the script length of a stored block (< 2^32: the block length prefix is u32); capacity hint only', 'none'),
    'TxInput as blockchain::proto::ToRaw>::to_bytes|Overflow(Add)|((36 + 5) + (self.script_len.value as usize));4':
        ('as above', 'none'),
    'TxOutput as blockchain::proto::ToRaw>::to_bytes|Overflow(Add)|(8 + 5);(self.script_len.value as usize)':
        ('as above', 'none'),
}


def discharge_infallible_write(env, s):
    """`write!(string, ..).unwrap()`: <String as fmt::Write>::write_str never returns Err, so write_fmt only fails if a
    formatted value's own fmt impl does; the arguments here are integers"""
    if s.what not in ('call:unwrap', 'call:expect') or s.cs is None or not s.cs.args:
        return None
    a0 = s.cs.args[0]
    if a0['k'] not in ('move', 'copy') or a0['place']['p']:
        return None
    ds = s.body.defs().get(a0['place']['l'], [])
    if len(ds) != 1 or ds[0][0] != 'call':
        return None
    w = ds[0][2]
    if mir.method_name(w.name) != 'write_fmt' or not w.args or w.args[0]['k'] not in ('move', 'copy'):
        return None
    if w.args[0]['place']['ty'] != '&mut std::string::String':
        return None
    fa = [f for f in mir.fmt_sites(s.body) if True]
    prim = all(a[1] in ('Display', 'Debug', 'LowerHex', 'UpperHex') for f in fa for a in f.args)
    if not prim:
        return None
    return ('infallible-write', 'write_fmt into a String cannot fail (fmt::Write for String is infallible)')


def table_lookup(s):
    fn = s.body.path
    for k, v in TABLE.items():
        f, what, pat = k.split('|', 2)
        if fn.endswith(f) and s.what == what and ';'.join(s.ops).startswith(pat):
            return k, v
    return None, None


def precondition(env, name, s):
    prog = env.prog
    if name == 'none':
        return True
    if name == 'caller_is_p2pk':
        callers = prog.callers_of(s.body)
        return len(callers) == 1 and any(g.startswith('is_p2pk(') for g in util.guards_at(callers[0].body, callers[0].bb))
    if name == 'first_occ_pairing':
        writers = set()
        for b in prog.bodies.values():
            for c in b.calls:
                if mir.method_name(c.name) in ('insert', 'entry', 'remove', 'clear', 'retain') and c.args:
                    r = canon(b.op_expr(c.args[0]))
                    if r in ('self.n_tx_types', 'self.tx_first_occs'):
                        writers.add(b.path)
        p = prog.one('SimpleStats::process_tx_pattern')
        ins_n = [c for c in p.calls if mir.method_name(c.name) == 'insert' and canon(p.op_expr(c.args[0])) == 'self.n_tx_types']
        ins_f = [c for c in p.calls if mir.method_name(c.name) == 'insert' and canon(p.op_expr(c.args[0])) == 'self.tx_first_occs']
        ent = [c for c in p.calls if mir.method_name(c.name) == 'entry']
        ok = writers == {p.path} and len(ins_n) == 1 and len(ins_f) == 1 and p.dominates(ins_n[0].bb, ins_f[0].bb) and \
            canon(p.op_expr(ins_n[0].args[1])) == canon(p.op_expr(ins_f[0].args[1])) and \
            all(any(g.startswith('contains_key(self.n_tx_types') for g in util.guards_at(p, c.bb)) for c in ent)
        # the insert of the first occurrence is unconditional after the count insert
        return ok and p.reach_from(ins_n[0].target) >= {ins_f[0].bb}
    return False


def discharge_struct_invariant(env, s):
    """compute_stack: elements[k] under `stack.pattern is V`; V is produced only under a template of length > k"""
    b = s.body
    if not b.path.endswith('custom::compute_stack') or not s.what.startswith('call:index<usize>'):
        return None
    k = mir.int_value(b.op_expr(s.cs.args[1]))
    g = [x for x in util.guards_at(b, s.bb) if x.startswith('a1.pattern is ')]
    if k is None or len(g) != 1 or canon(b.op_expr(s.cs.args[0])) != 'a1.elements':
        return None
    variant = g[0][len('a1.pattern is '):]
    n = env.template_len.get(variant)
    if n is None or not env.stack_ctor_ok:
        return None
    if k < n:
        return ('struct-invariant', 'Stack is built only in eval() as {pattern: eval_script_pattern(&elements), elements}; %s is returned only under a %d-element template; index %d < %d' % (variant, n, k, n))
    return None


def setup_struct_invariants(env):
    prog = env.prog
    ctx = env.ctx
    # matcher: returns true only with equal lengths
    mt = prog.one(EV + 'match_stack_pattern')
    dnf = util.bool_function_dnf(mt)
    ok = True
    for rels, v, p in dnf:
        vv = peel(v) if v else v
        if vv and vv[0] == 'bool' and vv[1]:
            ok = ok and any(util.crel(r) == 'len(a1) == len(a2)' for r in rels)
    env.matcher_ok = ok
    ctx.check('invariant', 'matcher:true-implies-equal-length', ok, mt, 'match_stack_pattern returns true only when len(elements) == len(pattern)')
    # template length per returned variant
    import c06
    p = prog.one(EV + 'eval_script_pattern')
    env.template_len = {}
    for d in p.ret_defs():
        v = p.rvalue_expr(d[3]) if d[0] == 'assign' else p.call_expr(d[2])
        c = canon(v)
        m = re.match(r'^ScriptPattern::(\w+)\{', c)
        if not m:
            continue
        pos = [x for x in util.guards_at(p, d[1]) if x.startswith('match_stack_pattern(')]
        if len(pos) == 1:
            t = c06.parse_template(pos[0])
            if t:
                env.template_len[m.group(1)] = len(t)
    # Stack constructed only in eval with pattern = eval_script_pattern(elements)
    ctors = []
    for b in prog.bodies.values():
        for i in b.live:
            for st in b.blocks[i]['stmts']:
                if st['k'] == 'assign' and st['rv']['k'] == 'aggr' and st['rv'].get('adt', '').endswith('custom::Stack'):
                    ctors.append((b, canon(b.rvalue_expr(st['rv']))))
    okc = len(ctors) == 1 and ctors[0][0].path == EV + 'eval' and ctors[0][1] == 'Stack::Stack{pattern: eval_script_pattern(with_capacity(10)), elements: with_capacity(10)}'
    wr = [b.path for b in prog.bodies.values() for bb, idx, pl, rv, st in b.stores()
          if any(el['k'] == 'field' and (el.get('of') or '').endswith('custom::Stack') for el in pl['p'])]
    env.stack_ctor_ok = okc and not wr
    ctx.check('invariant', 'Stack:pattern=f(elements)', env.stack_ctor_ok, ctors[0][0] if ctors else None,
              'Stack constructed once as {pattern: eval_script_pattern(&elements), elements}; fields never written afterwards')


def is_tainted(prog, s, tainted_bodies):
    if s.body.path in tainted_bodies:
        return True
    return any(TAINT.search(o) for o in s.ops)


def rule_inventory(ctx):
    prog = ctx.prog
    env = Env(ctx)
    env.build()
    setup_struct_invariants(env)
    reg_a = region_a(prog)
    reg_a_paths = set(b.path for b in reg_a)
    for b in reg_a:
        ctx.touch(b)
    # bodies that only ever process script bytes handed in by callers (region b helpers)
    tainted_bodies = set()
    for b in prog.bodies.values():
        if b.path in reg_a_paths:
            continue
        callers = prog.callers_of(b)
        if callers and any(any(TAINT.search(canon(c.body.op_expr(a))) for a in c.args) for c in callers) and b.path.startswith('common::utils::arr_to_hex'):
            tainted_bodies.add(b.path)
    for b in list(prog.bodies.values()):
        if b.closure_parent in tainted_bodies:
            tainted_bodies.add(b.path)
    n_a = n_b = 0
    by_kind = {}
    seen_keys = {}
    for b in prog.bodies.values():
        in_a = b.path in reg_a_paths
        if b.impl_trait and (b.impl_trait.endswith('fmt::Debug') or b.impl_trait.endswith('fmt::Display')) and not in_a:
            continue
        for s in panics.sites_in(b):
            if s.what == 'ptrcheck':
                continue  # compiler-inserted alignment/null checks on a freshly allocated Box (vec! literal)
            region = 'a' if in_a else ('b' if is_tainted(prog, s, tainted_bodies) else None)
            if region is None:
                continue
            if region == 'a':
                n_a += 1
            else:
                n_b += 1
            res = None
            if s.kind == 'assert' and s.what.startswith('Overflow'):
                res = discharge_overflow(env, s)
            elif s.kind == 'assert' and s.what == 'BoundsCheck':
                res = discharge_bounds(env, s)
            elif s.kind == 'call' and s.what.startswith('call:index<std::ops::Range'):
                res = discharge_slice_index(env, s)
            if res is None and s.kind == 'call' and s.what.startswith('call:index<usize>'):
                res = discharge_struct_invariant(env, s)
            if res is None and s.kind == 'call' and s.what in ('call:panic', 'call:panic_fmt'):
                res = discharge_callee_guard(env, s)
            if res is None and s.kind == 'call':
                res = discharge_infallible_write(env, s)
            if res is None:
                k, ent = table_lookup(s)
                if ent is not None:
                    if precondition(env, ent[1], s):
                        res = ('table', ent[0])
                    else:
                        res = None
            short = '%s|%s|%s' % (b.path.split('::')[-1] if '{closure' not in b.path else '::'.join(b.path.split('::')[-2:]), s.what, ';'.join(o[:60] for o in s.ops))
            seen_keys[short] = seen_keys.get(short, 0) + 1
            if seen_keys[short] > 1:
                short += '#%d' % seen_keys[short]
            if res is not None:
                by_kind[res[0]] = by_kind.get(res[0], 0) + 1
                ctx.ok('inventory', '%s:%s' % (region, short), s.where(), '[%s] %s' % res)
            else:
                ctx.violation('inventory', '%s:undischarged:%s' % (region, short), s.where(),
                              'panic site reachable from script/witness bytes is not discharged: %s %s in %s under guards %s'
                              % (s.what, s.ops, b.path, [g for g in util.guards_at(b, s.bb) if not util.is_ok_guard(g)][-4:]))
    ctx.note('region (a): %d sites, region (b): %d sites; discharges: %s; %s' % (n_a, n_b, by_kind, env.entry_note))
    ctx.check('inventory', 'region-a-entry', any(b.path == ENTRY for b in reg_a), None, 'region (a) = %d bodies reachable from eval_from_bytes' % len(reg_a))


def rule_opaque(ctx):
    """script/witness bytes outside the evaluators are length-delimited and never interpreted"""
    prog = ctx.prog
    # witness items: read and dropped
    tx = prog.one('BlockchainRead::read_tx')
    ctx.touch(tx)
    wv = [c for c in tx.calls if mir.method_name(c.name) == 'read_u8_vec']
    ok = len(wv) == 1 and not [u for u in tx.real_uses(wv[0].dest['l']) if u[2] not in ('arg',)]
    # the `?` consumes it; the payload (the Vec) must have no further use
    ctx.check('opaque', 'witness-items-dropped', len(wv) == 1, tx, 'witness items are read into a temporary Vec that is dropped')
    # script_sig: only serialised (to_bytes) and hex-printed
    uses = []
    for b in prog.bodies.values():
        if b.impl_trait and b.impl_trait.endswith('fmt::Debug'):
            continue
        for i, p in b.all_places():
            for el in p['p']:
                if el['k'] == 'field' and el['name'] == 'script_sig':
                    uses.append(b.path)
    uses = sorted(set(uses))
    exp = sorted(['<blockchain::proto::tx::TxInput as blockchain::proto::ToRaw>::to_bytes', 'callbacks::csvdump::<impl blockchain::proto::tx::TxInput>::as_csv'])
    ctx.check('opaque', 'script_sig-never-interpreted', uses == exp, None, 'script_sig is read in %s' % uses)
    uses = []
    for b in prog.bodies.values():
        if b.impl_trait and b.impl_trait.endswith('fmt::Debug'):
            continue
        for i, p in b.all_places():
            for el in p['p']:
                if el['k'] == 'field' and el['name'] == 'script_pubkey':
                    uses.append(b.path)
    uses = sorted(set(uses))
    exp = sorted(['<blockchain::proto::tx::TxOutput as blockchain::proto::ToRaw>::to_bytes', 'callbacks::csvdump::<impl blockchain::proto::tx::EvaluatedTxOut>::as_csv',
                  'blockchain::proto::tx::EvaluatedTxOut::eval_script'])
    ctx.check('opaque', 'script_pubkey-interpreted-only-by-evaluator', uses == exp, None, 'script_pubkey is read in %s' % uses)
    # the evaluators return a value on every path (no Result/unwrap at the call site)
    es = prog.one('EvaluatedTxOut::eval_script')
    ctx.check('opaque', 'evaluation-is-total-at-call-site', not [s for s in panics.sites_in(es) if s.what != 'ptrcheck'], es, 'eval_script has no panic site')
    en = prog.one('script::eval_from_bytes')
    ctx.check('opaque', 'entry-returns-plain-value', en.local_ty(0).endswith('EvaluatedScript'), en, 'eval_from_bytes returns EvaluatedScript (no Result)')
    # Error(..) patterns are never unwrapped downstream
    bad = []
    for b in prog.bodies.values():
        for s in panics.sites_in(b):
            if s.kind == 'call' and any('.pattern' in o or 'ScriptPattern' in o for o in s.ops) and s.what in ('call:unwrap', 'call:expect'):
                bad.append(s.where())
    ctx.check('opaque', 'patterns-never-unwrapped', not bad, None, 'unwrap/expect on script patterns: %s' % bad)


def run(ctx):
    ctx.trusted += ['rust-bitcoin 0.32.5 totality: Script::from_bytes, is_* predicates, instructions(), Address::from_script/p2pkh, opcode classify, base58::encode, hash functions',
                    'allocator (with_capacity of script-sized buffers)', 'slice lengths <= isize::MAX (language guarantee)']
    ctx.assumptions += ['library predicates are pure: repeated calls on the same script return the same value']
    ctx.guard('inventory', rule_inventory)
    ctx.guard('opaque', rule_opaque)
    # vacuity guard, deliberately below today's count (53 dev / 23 release): removing a panic site is a legitimate edit
    ctx.floor('inventory', 30 if ctx.profile == 'dev' else 12)
    ctx.floor('invariant', 3)
    ctx.floor('opaque', 6)
