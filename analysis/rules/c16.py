"""C16 — opreturn prints exactly the non-empty UTF-8 payloads, in chain order."""
import re

import mir
import util
from mir import canon, peel, Unrecognised

EXPLANATION = (
    "Static decision of the structural clauses of C16: (payload_btc) on the Bitcoin/testnet3 path the string "
    "inside ScriptPattern::OpReturn derives from the decoded push instruction that follows OP_RETURN (the "
    "instruction iterator and the PushBytes variant are in its provenance, selected at index 1) and from no "
    "constant byte offset into the raw script, through strict String::from_utf8 with the empty string on "
    "error; any other definition is the empty string; (payload_fork) on the fork path the payload is "
    "from_utf8_lossy of the single Data token of the [OP_RETURN, Data] template; (print) the callback's only "
    "stdout write is one println whose arguments are the on_block height, the tx hash and the payload, the "
    "payload through a flag-free Display placeholder, dominated by `pattern is OpReturn` and `!is_empty`, "
    "inside forward loops over txs and outputs. No fixed byte offset can be right for all four push "
    "encodings, so payload_btc is a necessary condition. Decides these for all payloads and push forms.")
RULE = ("instances = definitions of the payload string, print sites with guards and argument provenance, loop "
        "iterators; non-trivial = provenance/guard obligation")

S = 'from_bytes(a1)'


def rule_payload_btc(ctx):
    prog = ctx.prog
    b = prog.one('script::eval_from_bytes_bitcoin')
    ctx.touch(b)
    # find the OpReturn aggregate(s)
    aggs = []
    for i in b.live:
        for st in b.blocks[i]['stmts']:
            if st['k'] == 'assign' and st['rv']['k'] == 'aggr' and st['rv'].get('variant') == 'OpReturn':
                aggs.append((i, st))
    if len(aggs) != 1:
        raise Unrecognised('payload_btc', 'expected one OpReturn construction on the Bitcoin path, found %d' % len(aggs))
    i, st = aggs[0]
    g = util.guards_at(b, i)
    ctx.check('payload_btc', 'built-under-is_op_return', 'is_op_return(%s)' % S in g, (b, i), 'OpReturn built under %s' % g)
    op = st['rv']['ops'][0]
    e = b.op_expr(op)
    alts = list(peel(e, calls=False)[1]) if peel(e, calls=False)[0] == 'phi' else [e]
    n_dec = 0
    for a in alts:
        c = canon(a)
        if c in ('new()', '""', 'default()'):
            ctx.ok('payload_btc', 'alt:empty', (b, i), 'payload alternative: empty string')
            continue
        raw = re.search(r'skip\((to_bytes|as_bytes)?\(?%s' % re.escape(S), c) or re.search(r'%s\)?\[Range' % re.escape(S), c) or \
            ('instructions(' not in c and (S in c))
        if raw:
            ctx.violation('payload_btc', 'raw-offset', (b, i),
                          'payload = %s: taken at a fixed byte offset of the raw script; for PUSHDATA1/2/4 pushes (every payload '
                          'of 76+ bytes) the length byte(s) become part of the reported data' % c)
            continue
        a2 = peel(a, calls=False)
        strict = None
        if a2[0] == 'call' and mir.method_name(a2[1]) in ('unwrap_or_default', 'unwrap_or_else', 'unwrap_or'):
            # the decoding call, wherever value-preserving wrappers (map(str::to_owned), an expanded map, ..) put it
            dec_calls = list(mir.calls_in(a2[2][0], lambda nme: mir.method_name(nme) in ('from_utf8', 'from_utf8_lossy', 'from_utf8_unchecked')))
            kinds = set(mir.method_name(c[1]) for c in dec_calls)
            srcs = set(canon(c[2][0]) for c in dec_calls if c[2])
            if len(kinds) == 1 and len(srcs) == 1:
                strict = (mir.method_name(a2[1]), list(kinds)[0], list(srcs)[0])
        if not strict:
            ctx.unrecognised('payload_btc', 'payload-shape', (b, i), 'payload = %s' % c)
            continue
        src = strict[2]
        ctx.check('payload_btc', 'strict-utf8-with-empty-default', strict[1] == 'from_utf8', (b, i), 'payload = %s' % c)
        if strict[0] == 'unwrap_or_else':
            clo = [x for x in prog.bodies.values() if x.kind == 'Closure' and x.closure_parent == b.path]
            okc = any(canon(x.ret_expr()) in ('""', 'new()', 'from("")', 'default()') for x in clo)
            ctx.check('payload_btc', 'fallback-is-empty', okc, (b, i), 'error fallback closure returns the empty string')
        if strict[0] == 'unwrap_or':
            ctx.check('payload_btc', 'fallback-is-empty', canon(a2[2][1]) in ('""', 'new()', 'default()'), (b, i), 'error fallback is the empty string')
        dec = re.match(r'^\(nth\((.*)\)\?\? as PushBytes\)\.0$', src)
        dec2 = re.match(r'^\(each\((.*)\)\? as PushBytes\)\.0$', src)
        ok = False
        if dec:
            ok = dec.group(1) == 'instructions(%s), 1' % S
        elif dec2:
            ok = dec2.group(1) in ('skip(instructions(%s), 1)' % S,)
        ctx.check('payload_btc', 'decoded-push-after-op_return', ok, (b, i),
                  'payload bytes = %s' % src,
                  bad_detail='payload bytes = %s: not the PushBytes of the instruction at index 1 of script.instructions()' % src)
        n_dec += 1
    ctx.check('payload_btc', 'has-decoded-alternative', n_dec >= 1, (b, i), '%d decoded alternative(s)' % n_dec)
    # the pattern is returned with no address (C05.addr) — here: returned at all
    rets = [canon(b.call_expr(d[2])) for d in b.ret_defs() if d[0] == 'call']
    ctx.check('payload_btc', 'returned', any('ScriptPattern::OpReturn{' in r for r in rets), b, 'OpReturn pattern is returned')


def rule_payload_fork(ctx):
    prog = ctx.prog
    p = prog.one("ScriptEvaluator::<'a>::eval_script_pattern")
    ctx.touch(p)
    found = 0
    for d in p.ret_defs():
        if d[0] != 'assign':
            continue
        c = canon(p.rvalue_expr(d[3]))
        if c.startswith('ScriptPattern::OpReturn{'):
            found += 1
            g = util.guards_at(p, d[1])
            dpath = set(b2.path for b2 in prog.find('StackElement::data'))
            ci = canon(prog.inline_only(p.rvalue_expr(d[3]), dpath)) if dpath else c
            ctx.check('payload_fork', 'lossy-utf8-of-data-token', ci == 'ScriptPattern::OpReturn{0: from_utf8_lossy((a1[1] as Data).0)}', (p, d[1]), ci)
            tm = 'match_stack_pattern(a1, [StackElement::Op{0: 106}, StackElement::Data{0: new()}])'
            ctx.check('payload_fork', 'under-opreturn-template', tm in g, (p, d[1]), 'guards: [OP_RETURN, Data] template')
    ctx.check('payload_fork', 'single-construction', found == 1, p, '%d OpReturn construction(s)' % found)
    cs_ = prog.one('custom::compute_stack')
    ctx.touch(cs_)
    # whichever construction site an OpReturn pattern reaches (a dedicated arm, the catch-all, or one construction
    # fed by a separately chosen address) hands the pattern on unchanged and gives it no address
    def allows_opreturn(bb):
        for g in util.path_guard_sets(cs_, bb):
            pat = [x for x in g if x.startswith('a1.pattern is ')]
            if not pat or 'OpReturn' in pat[0][len('a1.pattern is '):].split('|'):
                return True
        return False
    sites = []   # (bb, address operand, pattern canon)
    for i2 in cs_.live:
        for st in cs_.blocks[i2]['stmts']:
            if st['k'] == 'assign' and st['rv']['k'] == 'aggr' and st['rv'].get('adt', '').endswith('EvaluatedScript') and 'address' in st['rv'].get('fields', []):
                f = st['rv']['fields']
                sites.append((i2, st['rv']['ops'][f.index('address')], canon(cs_.op_expr(st['rv']['ops'][f.index('pattern')]))))
    for c in cs_.calls:
        if mir.method_name(c.name) == 'new' and 'EvaluatedScript' in c.name and len(c.args) == 2:
            sites.append((c.bb, c.args[0], canon(cs_.op_expr(c.args[1]))))
    verdicts = []
    for bb, aop, pat in sites:
        if not allows_opreturn(bb):
            continue
        okp = pat in ('ScriptPattern::OpReturn{0: (a1.pattern as OpReturn).0}', 'a1.pattern')
        alts = util.value_alternatives(cs_, aop) or [(cs_.op_expr(aop), bb)]
        oka = all(canon(e) == 'Option::None{}' for e, abb in alts if abb == bb or allows_opreturn(abb))
        verdicts.append((okp and oka, pat))
    okf = bool(verdicts) and all(v[0] for v in verdicts)
    ctx.check('payload_fork', 'payload-forwarded-unchanged', okf, cs_, 'compute_stack forwards the payload string: %s' % verdicts)


def rule_print(ctx):
    prog = ctx.prog
    ob = prog.one('<callbacks::opreturn::OpReturn as callbacks::Callback>::on_block')
    ctx.touch(ob)
    prints = [cs for cs in ob.calls if cs.is_('std::io::_print', 'std::io::_eprint') or re.search(r'::(write_all|write_fmt|write)$', cs.name)]
    ctx.check('print', 'single-print-site', len(prints) == 1 and prints[0].is_('std::io::_print'), ob, '%d output call(s)' % len(prints))
    txs = 'each(a2.txs)'
    out = 'each(%s.value.outputs)' % txs
    pay = '(%s.script.pattern as OpReturn).0' % out
    for cs in prints:
        f = util.fmt_in(prog, ob, ob.op_expr(cs.args[0]))
        if f is None:
            ctx.unrecognised('print', 'format', cs, 'print argument is not a format_args! site')
            continue
        g = util.guards_at(ob, f.cs.bb)
        ctx.check('print', 'guard:is-opreturn', '%s.script.pattern is OpReturn' % out in g, cs, 'printed only for OpReturn patterns')
        ctx.check('print', 'guard:non-empty', '!is_empty(%s)' % pay in g, cs, 'printed only for non-empty payloads',
                  bad_detail='the print is not guarded by !payload.is_empty(): guards are %s' % g)
        extra = [x for x in g if x not in ('%s.script.pattern is OpReturn' % out, '!is_empty(%s)' % pay) and 'next(' not in x and not util.is_ok_guard(x)]
        ctx.check('print', 'no-other-guard', not extra, cs, 'no further condition suppresses lines', bad_detail='additional guards %s' % extra)
        args = [(a[1], a[2], canon(a[3])) for a in f.args]
        byval = {a[2]: a for a in args}
        ctx.check('print', 'arg:height', 'a3' in byval and byval['a3'][0] == 'Display', cs, 'height = on_block height parameter')
        ctx.check('print', 'arg:txid', '%s.hash' % txs in byval and byval['%s.hash' % txs][0] == 'Display', cs, 'txid = hash of the current tx')
        pa = byval.get(pay)
        ctx.check('print', 'arg:payload-verbatim', pa is not None and pa[0] == 'Display' and pa[1]['default'], cs,
                  'payload printed through a plain {} placeholder',
                  bad_detail='payload placeholder is %s' % (str(pa[:2]) if pa else 'absent'))
        order = [a[2] for a in args]
        ctx.check('print', 'one-line', f.literal_skeleton.count('\n') == 1 and f.literal_skeleton.endswith('\n'), cs, 'one line per payload')
        ctx.check('print', 'loop-depth', ob.loop_depth(f.cs.bb) == 2, cs, 'inside tx loop and output loop')
    # forward iteration: no rev()/par_iter in the body
    bad = [cs for cs in ob.calls if mir.method_name(cs.name) in ('rev', 'par_iter', 'into_par_iter', 'sort', 'sort_by', 'skip', 'take', 'step_by', 'filter')]
    ctx.check('print', 'forward-complete-iteration', not bad, ob, 'no reordering/skipping adaptor on the tx/output loops: %s' % [mir.method_name(c.name) for c in bad])


def rule_push_forms(ctx):
    """fork path, "every push form (direct, PUSHDATA1/2/4)": the data token the payload is taken from is delimited by the
    tokenizer's push length — operand width per opcode and little-endian combination are C06's rules, re-evaluated here
    because the payload clause depends on them"""
    import c06
    before = len(ctx.instances)
    c06.rule_le(ctx)
    c06.rule_arms(ctx)
    for i in ctx.instances[before:]:
        i.key = i.key.replace('C16.le:', 'C16.push_forms:le:').replace('C16.arms:', 'C16.push_forms:arms:')
        i.rule = 'push_forms'


def run(ctx):
    ctx.trusted += ['std String::from_utf8 / from_utf8_lossy', 'rust-bitcoin Script::instructions push decoding', 'C02 (chain order of on_block calls)']
    ctx.guard('payload_btc', rule_payload_btc)
    ctx.guard('payload_fork', rule_payload_fork)
    ctx.guard('push_forms', rule_push_forms)
    ctx.guard('print', rule_print)
    ctx.floor('payload_btc', 5)
    ctx.floor('payload_fork', 4)
    ctx.floor('print', 10)
    ctx.floor('push_forms', 10)
