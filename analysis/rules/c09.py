"""C09 — --verify accepts exactly the chains whose merkle roots and prev-hash links hold."""
import re

import mir
import util
from mir import canon, peel, Unrecognised

EXPLANATION = (
    "Static decision of the structural clauses of C09: (gate) in the block fetch every path from a successful "
    "read to the Ok(Some(block)) return on which the verify flag is true passes through the chain-verify call "
    "whose Result is `?`-propagated, and the flag is written only from the CLI option; (polarity) the three "
    "comparisons — computed merkle root vs header field, block hash vs the coin's genesis hash on the "
    "height==0 edge, header prev-hash vs the index hash of height-1 otherwise — return Err on the not-equal "
    "edge and Ok on the equal edge; (inputs) merkle leaves are tx.hash of all txs in forward order, the "
    "prev-hash oracle is chain_index.get(height-1).block_hash whose provenance is the LevelDB key, the "
    "trimmed index keeps start-1, the eight genesis constants equal the published hashes and reach the "
    "comparison unchanged; (fail) the Err edge of the fetch in the driver exits non-zero and never reaches "
    "on_complete. (merkle) the shape of utils::merkle_root is the reference algorithm: pair hash sha256d(left||right) over chunks of 2 of the current level, odd levels completed with sha256d(last||last), iterate while more than one hash remains, result = the single remaining hash (idiom match; SHA-256 itself is trusted).")
RULE = ("instances = comparison sites with edge polarity, gate paths, provenance hops, genesis constants; "
        "non-trivial = polarity/path/constant obligation")

GENESIS = {
    'Bitcoin': '000000000019d6689c085ae165831e934ff763ae46a2a6c172b3f1b60a8ce26f',
    'TestNet3': '000000000933ea01ad0ee984209779baaec3ced90fa3f408719526f8d77f4943',
    'Namecoin': '000000000062b72c5e2ceb45fbc8587e807c155b0da735e6483dfba2f0a9c770',
    'Litecoin': '12a765e31ffd4059bada1e25190f6e98c99d9714d334efa41a195a7e7e04bfe2',
    'Dogecoin': '1a91e3dace36e2be3bf030a65679fe821aa1d6ef92e7c9902eb318182c355691',
    'Myriadcoin': '00000ffde4c020b5938441a0ea3d314bf619eff0b38f32f78f7583cffa1ea485',
    'Unobtanium': '000004c2fc5fffb810dccc197d603690099a68305232e552d96ccbe8e2c52b75',
    'NoteBlockchain': '270f3e7b185c412d57ba913d10658df54f15201a67d736cb4071a4ec4eb54836',
}


def rule_gate(ctx):
    prog = ctx.prog
    g = prog.one('ChainStorage::get_block')
    ctx.touch(g)
    vcalls = [cs for cs in g.calls if cs.local and mir.method_name(cs.name) == 'verify']
    if len(vcalls) != 1:
        raise Unrecognised('gate', 'expected one verify call in the block fetch, found %d' % len(vcalls))
    v = vcalls[0]
    # Ok(Some(..)) return block
    okb = [d[1] for d in g.ret_defs() if d[0] == 'assign' and canon(g.rvalue_expr(d[3])).startswith('Result::Ok{0: Option::Some')]
    if not okb:
        raise Unrecognised('gate', 'no Ok(Some(block)) return')
    RS = set(okb)   # a fetch may have one return for the verified and one for the unverified path
    # the switch on self.verify
    sw = None
    for (src, dst), fs in g.edge_facts().items():
        for f in fs:
            if f[0] == 'cond' and canon(f[1]) == 'self.verify' and f[2] is True:
                sw = (src, dst)
    ctx.check('gate', 'flag-tested', sw is not None, g, 'the fetch branches on self.verify')
    if sw is None:
        return
    # from the true edge, R is unreachable without passing the verify call
    reach = g.reach_from(sw[1], avoid=[v.bb])
    ctx.check('gate', 'verify-on-every-flagged-path', not (RS & set(reach)), (g, sw[1]),
              'Ok(Some(block)) is unreachable from the verify=true edge without calling verify',
              witness=g.fmt_path(g.shortest_path(sw[1], sorted(RS), avoid=[v.bb]) or []))
    # result `?`-propagated: the success continuation is the only way on to R
    ve = mir.strip_sites(g.call_expr(v))
    okp = False
    for (src, dst), fs in g.edge_facts().items():
        if g.edge_infeasible(src, dst):
            continue
        for f in fs:
            if f[0] == 'is' and f[2] == ('Err',) and mir.strip_sites(peel(f[1], calls=False)) == ve:
                okp = not (RS & set(g.reach_from(dst)))
    ctx.check('gate', 'verify-error-propagated', okp, v, 'Err of verify cannot reach the Ok(Some(block)) return',
              bad_detail='the Result of verify is not propagated: a failed verification still delivers the block')
    a = [canon(x) for x in g.arg_exprs(v)]
    ctx.check('gate', 'verify-args', a[0] == 'self' and a[1].startswith('read_block(') and a[1].endswith(')?') and a[2] == 'a2', v,
              'verify(self, the block just read, height)')
    # verify happens on the block that is returned
    rets2 = [canon(g.rvalue_expr(d[3])) for d in g.ret_defs() if d[1] in RS and d[0] == 'assign']
    ctx.check('gate', 'verified-block-is-returned', bool(rets2) and all(a[1] in r for r in rets2), v, 'returned block = verified block')
    # flag provenance
    st = prog.one('ChainStorage::new')
    ctx.check('gate', 'flag=options.verify', 'verify: a1.verify' in canon(st.ret_expr()), st, 'ChainStorage.verify = options.verify')
    wr = [(b.path, ch) for b in prog.bodies.values() if b.impl_self and b.impl_self.endswith('ChainStorage') for bb, ch, val, s in util.self_field_stores(b) if ch[0] == 'verify']
    ctx.check('gate', 'flag-never-rewritten', not wr, st, 'stores to ChainStorage.verify: %s' % wr)
    pa = prog.one('parse_args')
    ctx.touch(pa)
    flags = [cs for cs in pa.calls if mir.method_name(cs.name) == 'get_flag']
    okf = len(flags) == 1 and canon(pa.op_expr(flags[0].args[1])) == '"verify"'
    agg = [canon(pa.rvalue_expr(s['rv'])) for i in pa.live for s in pa.blocks[i]['stmts'] if s['k'] == 'assign' and s['rv']['k'] == 'aggr' and s['rv'].get('adt', '').endswith('ParserOptions')]
    ctx.check('gate', 'options.verify=--verify', okf and len(agg) == 1 and 'verify: get_flag(a1, "verify")' in agg[0], pa, 'ParserOptions.verify = matches.get_flag("verify")')


def rule_polarity(ctx):
    prog = ctx.prog
    vm = prog.one('Block::verify_merkle_root')
    ctx.touch(vm)
    rets = {}
    for d in vm.ret_defs():
        if d[0] == 'assign':
            c = canon(vm.rvalue_expr(d[3]))
            rets['Ok' if c.startswith('Result::Ok') else 'Err'] = util.guards_at(vm, d[1])
    ctx.check('polarity', 'merkle:ok-on-equal', rets.get('Ok') == ['compute_merkle_root(self) == self.header.value.merkle_root'], vm, 'Ok under %s' % rets.get('Ok'))
    ctx.check('polarity', 'merkle:err-on-different', rets.get('Err') == ['compute_merkle_root(self) != self.header.value.merkle_root'], vm, 'Err under %s' % rets.get('Err'))
    v = prog.one('ChainStorage::verify')
    ctx.touch(v)
    errs = []
    oks = []
    for d in v.ret_defs():
        if d[0] == 'assign':
            c = canon(v.rvalue_expr(d[3]))
            (oks if c.startswith('Result::Ok') else errs).append((util.guards_at(v, d[1]), d[1]))
    mk = 'verify_merkle_root(a2) is Ok'
    gen = sorted(['a2.header.hash != self.coin.genesis_hash', 'a3 <= 0', mk])
    prev = sorted(['a2.header.value.prev_hash != get(self.chain_index, (a3 - 1))?.block_hash', '0 < a3', mk])
    eg = [e for e in errs if e[0] == gen]
    ep = [e for e in errs if e[0] == prev]
    ctx.check('polarity', 'genesis:err-on-different-at-height-0', len(eg) == 1, v, 'Err(genesis mismatch) under %s' % [e[0] for e in errs if 'a3 <= 0' in e[0]])
    ctx.check('polarity', 'prev:err-on-different-at-height>0', len(ep) == 1, v, 'Err(prev mismatch) under %s' % [e[0] for e in errs if '0 < a3' in e[0]])
    ctx.check('polarity', 'no-other-error', len(errs) == 2, v, '%d explicit Err returns' % len(errs))
    # Ok(()) is reached only through the equal edges: the guard sets of every path into an Ok(()) return
    if oks:
        conds = sorted(set(tuple(sorted(x for x in g if 'Level' not in x)) for o in oks for g in util.path_guard_sets(v, o[1])))
        exp = sorted([tuple(sorted(('a2.header.hash == self.coin.genesis_hash', 'a3 <= 0', mk))),
                      tuple(sorted(('a2.header.value.prev_hash == get(self.chain_index, (a3 - 1))?.block_hash', '0 < a3', mk)))])
        ctx.check('polarity', 'ok-only-on-equal-edges', conds == exp, (v, oks[0][1]), 'Ok(()) reached on %s' % conds)
    else:
        ctx.violation('polarity', 'ok-returns=0', v, 'no Ok(()) return')
    # merkle check is `?`-propagated first
    fr = [d for d in v.ret_defs() if d[0] == 'call' and mir.method_name(d[2].name) == 'from_residual']
    ctx.check('polarity', 'merkle-result-propagated', len(fr) == 1 and util.guards_at(v, fr[0][1]) == ['verify_merkle_root(a2) is Err'], v, '`?` on verify_merkle_root')


def rule_inputs(ctx):
    prog = ctx.prog
    cm = prog.one('Block::compute_merkle_root')
    ctx.touch(cm)
    # leaves = the hash of every tx, in order: either txs.iter().map(|tx| tx.hash).collect() or a push loop
    mr0 = [c for c in cm.calls if mir.method_name(c.name) == 'merkle_root']
    se = util.sequence_elements(prog, cm, mr0[0].args[0]) if len(mr0) == 1 else None
    ctx.check('inputs', 'leaves=all-txs-forward', se is not None and se[0] == 'self.txs' and canon(cm.ret_expr()).startswith('merkle_root('), cm,
              'leaves are built from %s' % (se[0] if se else canon(cm.ret_expr())))
    ctx.check('inputs', 'leaf=tx.hash', se is not None and se[1] == 'each(self.txs).hash', cm, 'each leaf is %s' % (se[1] if se else '?'))
    bad = [c for c in cm.calls if mir.method_name(c.name) in ('rev', 'skip', 'take', 'filter', 'step_by', 'par_iter')]
    ctx.check('inputs', 'no-reordering-adaptor', not bad, cm, 'adaptors: %s' % [mir.method_name(c.name) for c in bad])
    mr = [c for c in cm.calls if mir.method_name(c.name) == 'merkle_root']
    ctx.check('inputs', 'merkle-of-utils', len(mr) == 1 and mr[0].local, cm, 'utils::merkle_root')
    # block_hash of the index record comes from the LevelDB key (C03.key) and Hashed.hash from double_sha256 (C01.ser)
    r = prog.one('BlockIndexRecord::from')
    ctx.check('inputs', 'index-hash-from-leveldb-key', 'block_hash: try_into(a1)?' in canon(r.ret_expr()), r, 'record hash = key bytes')
    # genesis table
    seen = {}
    for b in prog.trait_method_impls('blockchain::parser::types::Coin', 'genesis'):
        coin = b.impl_self.split('::')[-1]
        ctx.touch(b)
        c = canon(b.ret_expr())
        m = re.match(r'^from_str\("([0-9a-f]{64})"\)\?$', c)
        h = m.group(1) if m else None
        seen[coin] = h
        fs = [x for x in b.calls if mir.method_name(x.name) == 'from_str']
        okt = fs and 'sha256d::Hash' in fs[0].rfull
        ctx.check('inputs', 'genesis:%s' % coin, h == GENESIS.get(coin) and okt, b, '%s genesis %s' % (coin, h),
                  bad_detail='%s genesis constant is %s, published hash is %s' % (coin, h, GENESIS.get(coin)))
    ctx.check('inputs', 'eight-genesis-constants', set(seen) == set(GENESIS), None, '%s' % sorted(seen))
    frm = prog.one('<blockchain::parser::types::CoinType as std::convert::From<T>>::from')
    ctx.check('inputs', 'CoinType.genesis_hash=coin.genesis()', 'genesis_hash: genesis(a1)' in canon(frm.ret_expr()), frm, 'genesis_hash: genesis(coin)')
    st = prog.one('ChainStorage::new')
    ctx.check('inputs', 'storage.coin=options.coin', 'coin: a1.coin' in canon(st.ret_expr()), st, 'coin: options.coin.clone()')
    # name -> coin
    fs = prog.one('<blockchain::parser::types::CoinType as std::str::FromStr>::from_str')
    ctx.touch(fs)
    pairs = {}
    for d in fs.ret_defs():
        if d[0] == 'assign':
            c = canon(fs.rvalue_expr(d[3]))
            m = re.match(r'^Result::Ok\{0: (\w+)\{\}\}$', c.replace('::' + c.split('::')[-1], '') if False else c)
            m = re.match(r'^Result::Ok\{0: .*?(\w+)::\w+\{\}\}$', c) or re.match(r'^Result::Ok\{0: (\w+)\{\}\}$', c)
            if m:
                pairs[m.group(1)] = util.guards_at(fs, d[1])
    # the block hash compared at height 0 is the Hashed header hash
    v = prog.one('ChainStorage::verify')
    cmpg = [c for c in v.calls if mir.method_name(c.name) in ('ne', 'eq') and 'genesis_hash' in canon(v.op_expr(c.args[1]))]
    ctx.check('inputs', 'genesis-compared-with-header-hash', len(cmpg) == 1 and canon(v.op_expr(cmpg[0].args[0])) == 'a2.header.hash', v, 'block.header.hash vs coin.genesis_hash')
    pv = [c for c in v.calls if mir.method_name(c.name) == 'get' and c.local]
    ctx.check('inputs', 'prev-oracle=index[height-1]', len(pv) == 1 and [canon(x) for x in v.arg_exprs(pv[0])] == ['self.chain_index', '(a3 - 1)'], v, 'chain_index.get(height - 1)')


def _cur(s):
    """replace every `phi(a1 | ..loop-carried..)` (the current level) by CUR"""
    out = ''
    i = 0
    while True:
        j = s.find('phi(a1 | ', i)
        if j < 0:
            return out + s[i:]
        depth = 0
        k = j + 3
        while k < len(s):
            if s[k] == '(':
                depth += 1
            elif s[k] == ')':
                depth -= 1
                if depth == 0:
                    break
            k += 1
        out += s[i:j] + 'CUR'
        i = k + 1


def rule_merkle(ctx):
    """shape of utils::merkle_root = the reference algorithm (idiom match; the arithmetic itself is trusted):
    while more than one hash: pair up left||right, duplicate the last one on odd levels; result = the single hash.
    Accepted spellings of a level: chunks(2) filtered to full pairs, or chunks_exact(2); of the odd element: last()
    under len % 2 == 1, or the one-element remainder of chunks_exact."""
    prog = ctx.prog
    m = prog.one('utils::merkle_root')
    ctx.touch(m)
    defs = {}
    # the current-level variable: the local (of the parameter's type) that is initialised from the parameter and
    # reassigned inside the loop
    def is_level_var(l, ds):
        if len(ds) < 2 or m.local_ty(l) != m.local_ty(1):
            return False
        vs = [canon(m.rvalue_expr(d[3])) if d[0] == 'assign' else canon(m.call_expr(d[2])) for d in ds]
        return 'a1' in vs and any(m.loop_depth(d[1]) >= 1 for d in ds)
    for l, ds in m.defs().items():
        if is_level_var(l, ds):
            for d in ds:
                v = m.rvalue_expr(d[3]) if d[0] == 'assign' else m.call_expr(d[2])
                defs[_cur(canon(v))] = (m.loop_depth(d[1]), util.guards_at(m, d[1]))
    lv = [k for k in defs if k != 'a1']
    ma = re.match(r'^collect\(map\(filter\(chunks\(CUR, 2\), closure:(\{closure#\d+\})\), closure:(\{closure#\d+\})\)\)$', lv[0]) if len(lv) == 1 else None
    mb = re.match(r'^collect\(map\(chunks_exact\(CUR, 2\), closure:(\{closure#\d+\})\)\)$', lv[0]) if len(lv) == 1 else None
    ctx.check('merkle', 'level=pairs-of-current-level', bool(ma or mb) and set(defs) == {'a1', lv[0]} and defs[lv[0]][0] == 1, m, 'hashes := %s' % sorted(defs))
    if not (ma or mb):
        raise Unrecognised('merkle', 'level construction not recognised: %s' % sorted(defs))
    if ma:
        c0 = prog.one('utils::merkle_root::' + ma.group(1))
        c1 = prog.one('utils::merkle_root::' + ma.group(2))
        ctx.touch(c0)
        ctx.check('merkle', 'pair-filter=full-pairs-only', canon(c0.ret_expr()) == '(len(a2) == 2)', c0, 'filter keeps chunks of length 2')
    else:
        c1 = prog.one('utils::merkle_root::' + mb.group(1))
        ctx.ok('merkle', 'pair-filter=full-pairs-only', m, 'chunks_exact(2) yields full pairs only')
    ctx.touch(c1)
    ctx.check('merkle', 'pair-hash=sha256d(left||right)', canon(c1.ret_expr()) == 'hash(concat([a2[0], a2[1]]))', c1, 'pair hash = %s' % canon(c1.ret_expr()),
              bad_detail='pair hash = %s; the Bitcoin merkle node is sha256d(left || right)' % canon(c1.ret_expr()))
    h1 = [c for c in c1.calls if mir.method_name(c.name) == 'hash']
    ctx.check('merkle', 'pair-hash-is-sha256d', len(h1) == 1 and 'sha256d::Hash' in h1[0].rfull, c1, h1[0].rfull if h1 else '?')
    # odd level: push(hash(last || last)) exactly when the level has an odd number of hashes
    pu = [c for c in m.calls if mir.method_name(c.name) == 'push']
    okp = False
    if len(pu) == 1:
        arg = _cur(canon(m.op_expr(pu[0].args[1])))
        g = sorted(_cur(x) for x in util.guards_at(m, pu[0].bb))
        tgt = _cur(canon(m.op_expr(pu[0].args[0])))
        la = 'last(CUR)?[RangeFull::RangeFull{}]'
        lb = 'remainder(chunks_exact(CUR, 2))[0][RangeFull::RangeFull{}]'
        if arg == 'hash(concat([%s, %s]))' % (la, la):
            okp = g == sorted(['(len(CUR) % 2) == 1', '1 < len(CUR)'])
        elif arg == 'hash(concat([%s, %s]))' % (lb, lb) and mb:
            okp = g == sorted(['PtrMetadata(remainder(chunks_exact(CUR, 2))) == 1', '1 < len(CUR)']) or g == sorted(['len(remainder(chunks_exact(CUR, 2))) == 1', '1 < len(CUR)'])
        okp = okp and tgt == lv[0]
    ctx.check('merkle', 'odd-level-duplicates-last', okp, pu[0] if pu else m, 'odd level: push(sha256d(last || last)) onto the new level',
              bad_detail='odd levels are not completed with sha256d(last || last): %s under %s' % ([canon(m.op_expr(c.args[1]))[:120] for c in pu], [util.guards_at(m, c.bb)[:2] for c in pu]))
    # loop condition and result
    rets = [(_cur(canon(m.rvalue_expr(d[3])) if d[0] == 'assign' else canon(m.call_expr(d[2]))), [_cur(x) for x in util.guards_at(m, d[1])]) for d in m.ret_defs()]
    okr = len(rets) == 1 and rets[0][0] == 'first(CUR)?' and rets[0][1] == ['len(CUR) <= 1']
    ctx.check('merkle', 'result=single-remaining-hash', okr, m, 'returns first(hashes) once len <= 1')
    ch = [c for c in m.calls if mir.method_name(c.name) in ('chunks', 'chunks_exact')]
    ctx.check('merkle', 'chunks-of-2-over-current-level', len(ch) == 1 and [_cur(canon(a)) for a in m.arg_exprs(ch[0])] == ['CUR', '2'] and '1 < len(CUR)' in [_cur(x) for x in util.guards_at(m, ch[0].bb)], m, 'chunks(2) while len > 1')
    par = [c for c in m.calls + c1.calls if 'rayon' in c.name]
    ctx.check('merkle', 'sequential', not par, m, 'no parallel iterator in the merkle computation')


def rule_fail(ctx):
    import c10
    before = len(ctx.instances)
    c10.rule_readfail(ctx)
    # re-label the shared instances under this property's rule name
    for i in ctx.instances[before:]:
        i.rule = 'fail'
        i.key = i.key.replace('.readfail:', '.fail:')


def run(ctx):
    ctx.trusted += ['sha256d of rust-bitcoin', 'utils::merkle_root arithmetic (value-level; one unit test)', 'C02.trim keeps start-1']
    for r, f in (('gate', rule_gate), ('polarity', rule_polarity), ('inputs', rule_inputs), ('merkle', rule_merkle), ('fail', rule_fail)):
        ctx.guard(r, f)
    ctx.floor('gate', 8)
    ctx.floor('polarity', 7)
    ctx.floor('inputs', 18)
    ctx.floor('fail', 5)
    ctx.floor('merkle', 8)
