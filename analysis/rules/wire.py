"""Shared extraction of wire-grammar terms from reader bodies (used by C01 and C12)."""
import mir
import util
from mir import canon, peel


def is_read(cs):
    m = mir.method_name(cs.name)
    return (m.startswith('read_') and m != 'read_exact') or (m == 'read_from' and 'VarUint' in cs.name)


def grammar(body):
    """list of grammar items for a reader body:
       (label, primitive, endianness|None, [canonical args after self], [loop bounds outermost first], [data guards])"""
    reads, labels = util.read_sequence(body, is_read)
    items = []
    for cs in reads:
        args = [canon(body.op_expr(a), labels=labels) for a in cs.args]
        recv = args[0] if args else None
        lb = [canon(x, labels=labels) if x else '?' for x in util.loop_bounds(body, cs.bb)]
        end = [x.split('::')[-1] for x in cs.gargs if 'Endian' in x]
        g = []
        for r in util.facts_to_rels(body.facts_at(cs.bb)):
            c = util_crel_l(r, labels)
            if c.startswith('branch(') or 'next(' in c:
                continue
            g.append(c)
        items.append((labels[cs.site], mir.method_name(cs.name), end[0] if end else None, recv, args[1:], lb, sorted(g), cs))
    return items, labels


def util_crel_l(r, labels):
    if r[0] == 'bool':
        return '%s%s' % ('' if r[2] else '!', canon(r[1], labels=labels))
    if r[0] == 'is':
        return '%s is %s' % (canon(r[1], labels=labels), '|'.join(r[2]))
    if r[0] in ('eq', 'ne') and isinstance(r[2], tuple) and r[2] and not isinstance(r[2][0], str):
        return '%s %s {%s}' % (canon(r[1], labels=labels), 'in' if r[0] == 'eq' else 'notin', ','.join(str(x) for x in r[2]))
    sym = {'lt': '<', 'le': '<=', 'eq': '==', 'ne': '!='}[r[0]]
    return '%s %s %s' % (canon(r[1], labels=labels), sym, canon(r[2], labels=labels))


def shape(items):
    """comparison form: drop labels' call-site objects"""
    return [(i[0], i[1], i[2], i[3], i[4], i[5], i[6]) for i in items]
