"""Shared extraction of wire-grammar terms from reader bodies (used by C01 and C12).

A grammar item is one read on the reader, in reverse post-order, with endianness, canonical arguments, the
iteration domains of the enclosing loops and the data guards that dominate it. Calls to the project's own
reader *non-terminals* (read_tx, read_block_header, …) stay as items; calls to any OTHER crate-local helper
that takes the reader are flattened in place (its items are spliced in with parameters substituted and call
sites tagged), so extracting or inlining a helper function does not change the extracted grammar."""
import mir
import util
from mir import canon, peel

NON_TERMINALS = {'read_block', 'read_block_header', 'read_tx', 'read_txs', 'read_tx_inputs', 'read_tx_outputs',
                 'read_tx_outpoint', 'read_256hash', 'read_u8_vec', 'read_merkle_branch', 'read_aux_pow_extension'}


def is_read(cs):
    m = mir.method_name(cs.name)
    return (m.startswith('read_') and m != 'read_exact') or (m == 'read_from' and 'VarUint' in cs.name)


def helper_target(prog, cs):
    """crate-local reader helper that is not one of the grammar's own non-terminals"""
    if prog is None or not cs.local:
        return None
    m = mir.method_name(cs.name)
    if m in NON_TERMINALS or (m == 'read_from' and 'VarUint' in cs.name):
        return None
    tg = prog.targets(cs)
    if len(tg) != 1 or tg[0].kind == 'Closure':
        return None
    return tg[0]


def lazy_map(prog, body, cs):
    """`iter.map(closure).collect()`: the closure's reads happen when the adaptor is consumed. Returns
    (iteration domain, closure value expression, closure body) for such a consumer call, else None"""
    if prog is None or mir.method_name(cs.name) not in ('collect', 'count', 'last', 'sum') or not cs.args:
        return None
    e = peel(body.op_expr(cs.args[0]))
    if e[0] == 'call' and mir.method_name(e[1]) == 'map' and 'Iterator' in e[1] and len(e[2]) == 2:
        clo = peel(e[2][1])
        if clo[0] == 'aggr' and clo[1] == 'closure' and clo[2] in prog.bodies:
            cb = prog.bodies[clo[2]]
            if any(is_read(c) for c in cb.calls):
                return peel(e[2][0]), clo, cb
    return None


def _collect(prog, body, xf, outer_loops, outer_guards, depth, helpers):
    """items of `body` as dicts with expression-valued fields; xf transforms body-local expressions into
    the outermost caller's frame"""
    reads, _ = util.read_sequence(body, lambda c: is_read(c) or lazy_map(prog, body, c) is not None)
    out = []
    for cs in reads:
        loops = list(outer_loops) + [xf(x) if x is not None else None for x in util.loop_bounds(body, cs.bb)]
        guards = list(outer_guards)
        for r in util.facts_to_rels(body.facts_at(cs.bb)):
            guards.append(tuple(xf(x) if isinstance(x, tuple) and x and isinstance(x[0], str) and x[0] in mir._KINDS else x for x in r))
        lm = lazy_map(prog, body, cs) if not is_read(cs) else None
        if lm is not None and depth < 3:
            dom, clo, cb = lm
            helpers.add(cb.path)
            item = mir.mk_try(('call', '<I as std::iter::Iterator>::next', (xf(dom),), cs.site))
            mapping = {1: xf(clo), 2: item}
            site = xf(body.call_expr(cs))[3]

            def xf3(e, mapping=mapping, site=site, cb=cb):
                return mir.tag_sites(mir.subst(e, mapping), site, cb.path)
            out.extend(_collect(prog, cb, xf3, loops + [xf(dom)], guards, depth + 1, helpers))
            continue
        tgt = helper_target(prog, cs)
        call_e = xf(body.call_expr(cs))
        if tgt is not None and depth < 3:
            helpers.add(tgt.path)
            mapping = {i + 1: xf(body.op_expr(a)) for i, a in enumerate(cs.args)}
            site = call_e[3]

            def xf2(e, mapping=mapping, site=site, tgt=tgt):
                return mir.tag_sites(mir.subst(e, mapping), site, tgt.path)
            out.extend(_collect(prog, tgt, xf2, loops, guards, depth + 1, helpers))
            continue
        end = [x.split('::')[-1] for x in cs.gargs if 'Endian' in x]
        out.append(dict(site=call_e[3], name=mir.method_name(cs.name), endian=end[0] if end else None,
                        args=[xf(body.op_expr(a)) for a in cs.args], loops=loops, guards=guards, cs=cs))
    return out


def grammar(body, prog=None):
    """list of grammar items for a reader body:
       (label, primitive, endianness|None, receiver, [canonical args after the receiver], [loop bounds outermost
        first], [data guards], callsite) and the label table (site -> label)"""
    prog = prog or body.prog
    helpers = set()
    raw = _collect(prog, body, lambda e: e, [], [], 0, helpers)
    labels = {it['site']: str(i) for i, it in enumerate(raw)}

    def fin(e):
        return prog.inline_only(e, helpers) if helpers else e
    items = []
    for it in raw:
        args = [canon(fin(a), labels=labels) for a in it['args']]
        lb = [canon(fin(x), labels=labels) if x is not None else '?' for x in it['loops']]
        g = []
        for r in it['guards']:
            r2 = tuple(fin(x) if isinstance(x, tuple) and x and isinstance(x[0], str) and x[0] in mir._KINDS else x for x in r)
            c = util_crel_l(r2, labels)
            if util.is_ok_guard(c) or 'next(' in c:
                continue
            if c not in g:
                g.append(c)
        items.append((labels[it['site']], it['name'], it['endian'], args[0] if args else None, args[1:], lb, sorted(g), it['cs']))
    grammar.last_helpers = helpers
    return items, labels


def ret_canon(body, labels, prog=None):
    """canonical return expression of a reader body with the same labels and helper flattening as grammar()"""
    prog = prog or body.prog
    helpers = getattr(grammar, 'last_helpers', set())
    e = body.ret_expr()
    if helpers:
        e = prog.inline_only(e, helpers)
    return canon(e, labels=labels)


def expr_canon(body, e, labels, prog=None):
    prog = prog or body.prog
    helpers = getattr(grammar, 'last_helpers', set())
    if helpers:
        e = prog.inline_only(e, helpers)
    return canon(e, labels=labels)


def util_crel_l(r, labels):
    if r[0] == 'bool':
        return '%s%s' % ('' if r[2] else '!', canon(r[1], labels=labels))
    if r[0] == 'is':
        return '%s is %s' % (canon(r[1], labels=labels), '|'.join(r[2]))
    if r[0] in ('eq', 'ne') and isinstance(r[2], tuple) and r[2] and not isinstance(r[2][0], str):
        return '%s %s {%s}' % (canon(r[1], labels=labels), 'in' if r[0] == 'eq' else 'notin', ','.join(str(x) for x in r[2]))
    sym = {'lt': '<', 'le': '<=', 'eq': '==', 'ne': '!='}[r[0]]
    return '%s %s %s' % (canon(r[1], labels=labels), sym, canon(r[2], labels=labels))


def shape(items):
    """comparison form: drop labels' call-site objects"""
    return [(i[0], i[1], i[2], i[3], i[4], i[5], i[6]) for i in items]
