"""C02 — exactly the blocks of heights start..min(end,tip) are delivered, once, ascending."""
import re

import mir
import util
from mir import peel, show, unname, Unrecognised, field_chain, canon

EXPLANATION = (
    "Static decision of the structural clauses of C02 on the MIR of the driver loop, the index "
    "constructor and the three file-producing callbacks: (upper) the iteration domain of the loop that "
    "delivers blocks ends exactly at the index's max_height (inclusive), derived from the iterator "
    "aggregate kind / loop guard and an affine view of the bound; (clamp) max_height = end if end < "
    "max_known else max_known, decided on the edge facts that dominate each definition; (trim) the retain "
    "predicate keeps [start-1|start, max_height]; (start) first height and on_start argument are "
    "options.range.start; (once/asc) on every path of one loop iteration the virtual on_block is reached "
    "exactly once with (fetched block, loop variable), cur_height := h+1 afterwards, on_start before and "
    "on_complete after the loop only; (names) final file names carry (start field, on_complete height); "
    "(slice) no per-block output depends on state carried across blocks. Decides these clauses for every "
    "chain length and (s,e); does not execute the parser.")
RULE = ("instances = loops/defs/paths/call sites enumerated from MIR; an instance is non-trivial when it "
        "carries an obligation (comparison polarity, bound, path count, operand provenance); distinct by key")

CALLBACK = 'callbacks::Callback'


def find_driver_loop(ctx):
    prog = ctx.prog
    vs = util.virtual_sites(prog, CALLBACK, 'on_block')
    if not vs:
        raise Unrecognised('anchor', 'no virtual call to Callback::on_block found')
    reach = util.bodies_reaching(prog, [cs.body for cs in vs])
    cands = []
    for b in prog.bodies.values():
        for h, lb, back in b.loops():
            hits = [cs for cs in b.calls if cs.bb in lb and
                    ((cs in vs) or util.call_reaches(prog, cs, reach))]
            if hits:
                cands.append((b, h, lb, back, hits))
    if len(cands) != 1:
        raise Unrecognised('anchor', 'expected one loop delivering blocks, found %d' % len(cands))
    return cands[0], vs, reach


def loop_domain(body, header, lb):
    """returns dict(kind, start, end, inclusive, var) for the loop's iteration domain."""
    # idiom 1: for-loop over a range: header (or its successor) calls Iterator::next on the iterator
    for bb in sorted(lb):
        cs = body.call_at.get(bb)
        if cs and cs.method == 'next' and cs.trait and cs.trait.endswith('iter::Iterator') and body.dominates(bb, max(lb)) or \
                (cs and cs.method == 'next' and cs.trait and cs.trait.endswith('Iterator') and bb == header):
            it = peel(body.op_expr(cs.args[0]))
            var = mir.mk_try(body.call_expr(cs))
            if it[0] == 'aggr' and it[2].endswith('ops::Range::Range'):
                f = dict(it[3])
                return dict(kind='Range', start=f['start'], end=f['end'], inclusive=False, var=var, next=cs)
            if it[0] == 'call' and re.search(r'RangeInclusive::<.*>::new$|RangeInclusive::new$', it[1]):
                return dict(kind='RangeInclusive', start=it[2][0], end=it[2][1], inclusive=True, var=var, next=cs)
            if it[0] == 'aggr' and 'RangeInclusive' in it[2]:
                f = dict(it[3])
                return dict(kind='RangeInclusive', start=f['start'], end=f['end'], inclusive=True, var=var, next=cs)
            raise Unrecognised('loop-domain', 'iterator of the driver loop is not a range: %s' % show(it))
    # idiom 2: while h < B / h <= B
    si = body.switch_info(header)
    if si and si[0] == 'bool':
        stay = [t for t, labs in si[2].items() if t in lb]
        if len(stay) == 1:
            truth = si[2][stay[0]][0]
            r = util.norm_rel(si[1], truth)
            if r[0] in ('lt', 'le'):
                var = r[1]
                start = None
                v = peel(var, calls=False)
                # counter idiom: var = phi(init | var + 1)
                if v[0] == 'phi' and len(v[1]) == 2:
                    step = [x for x in v[1] if x[0] == 'bin' and x[1] in ('Add', 'AddUnchecked') and mir.int_value(x[3]) == 1 and x[2][0] == 'cyc']
                    init = [x for x in v[1] if x not in step]
                    if len(step) == 1 and len(init) == 1:
                        start = init[0]
                if start is None:
                    raise Unrecognised('loop-domain', 'while-loop variable is not a unit-step counter: %s' % show(var))
                return dict(kind='while', start=start, end=r[2], inclusive=(r[0] == 'le'), var=var, next=None)
    raise Unrecognised('loop-domain', 'driver loop header bb%d is neither a range for-loop nor a while h</<= B' % header)


def tip_expr_ok(prog, e, depth):
    """is `e` (after inlining local accessors) the index's max_height field?  returns (ok, k, shown)"""
    ie = prog.inline(e, depth)
    base, k, sat = util.affine(ie)
    if base is None:
        return False, k, show(ie)
    root, ch = field_chain(base)
    ok = root[0] == 'param' and root[2] == 1 and ch and ch[-1] == 'max_height'
    return ok, k, show(base)


def rule_upper(ctx):
    (b, h, lb, back, hits), vs, reach = find_driver_loop(ctx)
    ctx.touch(b)
    dom = loop_domain(b, h, lb)
    ok, k, shown = tip_expr_ok(ctx.prog, dom['end'], ctx.inline_depth)
    site = (b, h)
    if not ok:
        ctx.violation('upper', 'bound-not-index-max-height', site,
                      'loop bound %s does not resolve to the chain index max_height field' % shown)
        return
    last = k if dom['inclusive'] else k - 1
    desc = 'loop `%s` over [start, %s%+d%s: last delivered height = max_height%+d' % (
        dom['kind'], 'max_height', k, ']' if dom['inclusive'] else ')', last)
    if last == 0:
        ctx.ok('upper', 'last=max_height', site, desc)
    else:
        ctx.violation('upper', 'last=max_height%+d' % last, site,
                      desc + ' (property requires the block at min(end,tip) itself to be delivered)')


def rule_start(ctx):
    (b, h, lb, back, hits), vs, reach = find_driver_loop(ctx)
    prog = ctx.prog
    dom = loop_domain(b, h, lb)
    # the first height
    st = peel(dom['start']) if dom['start'] is not None else None
    if st is None:
        raise Unrecognised('start', 'while-loop start value not tracked')
    root, ch = field_chain(st)
    if not (root[0] == 'param' and root[2] == 1 and len(ch) == 1):
        ctx.violation('start', 'first-height-not-a-self-field', (b, h), 'loop starts at %s' % show(st))
        return
    fld = ch[0]
    # no store to that field before the loop in this body
    pre = [s for s in util.self_field_stores(b) if s[1] == [fld] and s[0] not in lb]
    ctx.check('start', 'no-store-before-loop:%s' % fld, not pre, (b, h),
              'field %s is not written in %s outside the loop' % (fld, b.path))
    # constructor value of that field
    ctors = []
    owner = b.impl_self
    for cb in prog.bodies.values():
        for i in cb.live:
            for stmt in cb.blocks[i]['stmts']:
                if stmt['k'] == 'assign' and stmt['rv']['k'] == 'aggr' and stmt['rv'].get('adt') == owner:
                    e = cb.rvalue_expr(stmt['rv'])
                    ctors.append((cb, i, dict(e[3])))
    if not ctors:
        raise Unrecognised('start', 'no constructor of %s found' % owner)
    for cb, i, f in ctors:
        ctx.touch(cb)
        v = peel(f.get(fld, ('unknown', 'missing')))
        root2, ch2 = field_chain(v)
        ok = ch2[-2:] == ['range', 'start'] and root2[0] == 'param'
        ctx.check('start', 'ctor:%s=options.range.start' % fld, ok, (cb, i),
                  '%s.%s initialised from %s' % (owner, fld, show(v)))
    # on_start argument
    os_sites = [cs for cs in b.calls if cs.bb not in lb and
                util.call_reaches(prog, cs, util.bodies_reaching(prog, [x.body for x in util.virtual_sites(prog, CALLBACK, 'on_start')]))]
    if len(os_sites) != 1:
        ctx.violation('start', 'on_start-sites=%d' % len(os_sites), b, 'expected exactly one on_start call before the loop')
        return
    cs = os_sites[0]
    arg = peel(b.op_expr(cs.args[-1]))
    ctx.check('start', 'on_start-arg=first-height', arg == st, cs,
              'on_start receives %s, loop starts at %s' % (show(arg), show(st)))
    ctx.check('start', 'on_start-dominates-loop', b.dominates(cs.bb, h) and b.loop_depth(cs.bb) == 0, cs,
              'on_start is called once, before the loop')
    # the wrapper passes its parameter on
    for w in prog.targets(cs):
        for vcs in w.calls:
            if vcs.method == 'on_start' and vcs.kind == 'virtual':
                a = peel(w.op_expr(vcs.args[-1]))
                ctx.check('start', 'wrapper-forwards-height:%s' % w.path, a[0] == 'param' and a[2] == 2, vcs,
                          'virtual on_start receives %s' % show(a))


def rule_once(ctx):
    (b, h, lb, back, hits), vs, reach = find_driver_loop(ctx)
    prog = ctx.prog
    dom = loop_domain(b, h, lb)
    deliver = [cs for cs in hits]
    dbbs = set(cs.bb for cs in deliver)
    lo, hi, paths = util.min_max_count(b, lb, h, set(back), lambda x: x in dbbs)
    # count on complete iterations: paths header -> back-edge source
    ctx.check('once', 'deliveries-per-iteration', lo == 1 and hi == 1, (b, h),
              'every complete iteration (%d path(s) header->back edge) reaches on_block min=%s max=%s time(s)'
              % (len(paths), lo, hi),
              witness=[b.fmt_path(p) for p in paths[:4]])
    # fetch call: the call in the loop whose result's Some payload is the block argument
    for cs in deliver:
        args = b.arg_exprs(cs)
        blk = peel(args[-2], calls=False, tries=False)
        hgt = peel(args[-1], calls=False)
        # block must be payload Some of payload Ok of a fetch call taking the loop variable
        fetch = None
        x = blk
        chain = []
        while x[0] in ('field', 'variant', 'try'):
            chain.append(x[2] if x[0] != 'try' else '?')
            x = peel(x[1], calls=False, tries=False)
        if x[0] == 'call':
            fetch = x
        # two success payloads: the Ok of the fetch and the Some of the optional block
        okb = fetch is not None and sum(1 for c in chain if c in ('?', 'Ok', 'Some')) == 2
        ctx.check('once', 'block-arg-is-fetched-block', okb, cs,
                  'on_block receives %s' % show(blk))
        var = dom['var']
        ctx.check('asc', 'height-arg-is-loop-variable', mir.strip_sites(hgt) == mir.strip_sites(peel(var, calls=False)), cs,
                  'on_block height = %s; loop variable = %s' % (show(hgt), show(var)))
        if fetch is not None:
            fa = [peel(a, calls=False) for a in fetch[2]]
            ctx.check('asc', 'fetch-arg-is-loop-variable', any(mir.strip_sites(a) == mir.strip_sites(peel(var, calls=False)) for a in fa),
                      cs, 'block fetched with %s' % ', '.join(show(a) for a in fa[1:]))
            ftargets = [t for t in prog.bodies.values() if t.path == fetch[1]]
            for t in ftargets:
                ctx.touch(t)
        # wrappers forward (block, height) to the virtual call exactly once, outside loops
        for w in prog.targets(cs):
            ctx.touch(w)
            inner = [v for v in w.calls if v.method == 'on_block' and v.kind == 'virtual']
            ctx.check('once', 'wrapper-single-virtual-call:%s' % w.path,
                      len(inner) == 1 and w.loop_depth(inner[0].bb) == 0 and w.dominates(inner[0].bb, w.exits()[0]) if inner else False,
                      w, 'wrapper makes %d virtual on_block call(s)' % len(inner))
            for v in inner:
                a = [peel(x) for x in w.arg_exprs(v)]
                ctx.check('once', 'wrapper-forwards-args:%s' % w.path,
                          a[-2][0] == 'param' and a[-2][2] == 2 and a[-1][0] == 'param' and a[-1][2] == 3, v,
                          'virtual on_block(%s, %s)' % (show(a[-2]), show(a[-1])))
    # every virtual on_block site is only reachable through the driver loop
    for v in vs:
        callers = prog.callers_of(v.body)
        ok = all(c.body is b and c.bb in lb for c in callers) and callers
        ctx.check('once', 'virtual-site-only-via-loop:%s' % v.body.path, bool(ok), v,
                  'callers of %s: %s' % (v.body.path, [c.where() for c in callers]))
    # loop exits: Ok(None) -> break, read error -> process::exit, callback error -> return Err
    # on_complete: after the loop only, not inside, once
    oc = util.virtual_sites(prog, CALLBACK, 'on_complete')
    reach_oc = util.bodies_reaching(prog, [x.body for x in oc])
    oc_sites = [cs for cs in b.calls if cs not in deliver and util.call_reaches(prog, cs, reach_oc)]
    ctx.check('once', 'on_complete-sites', len(oc_sites) == 1 and oc_sites[0].bb not in lb, b,
              '%d on_complete call(s) in %s, outside the loop' % (len(oc_sites), b.path))
    for cs in oc_sites:
        ctx.check('once', 'on_complete-after-loop', b.dominates(h, cs.bb), cs,
                  'on_complete is dominated by the loop header')


def rule_asc(ctx):
    (b, h, lb, back, hits), vs, reach = find_driver_loop(ctx)
    prog = ctx.prog
    dom = loop_domain(b, h, lb)
    var = mir.strip_sites(peel(dom['var'], calls=False))
    st = peel(dom['start'])
    root, ch = field_chain(st)
    fld = ch[0] if ch else None
    stores = [s for s in util.self_field_stores(b) if s[1] == [fld]]
    ins = [s for s in stores if s[0] in lb]
    # the cursor may also be advanced by a method of the same object that the loop calls with the loop's height
    # (e.g. at the end of the delivery wrapper): count such a store at its call site, in the loop's terms
    for cs in b.calls:
        if cs.bb not in lb or not cs.local or not cs.args or canon(b.op_expr(cs.args[0])) != 'self':
            continue
        for t in prog.targets(cs):
            if t.impl_self != b.impl_self or t.loops():
                continue
            for bb2, ch2, val2, st2 in util.self_field_stores(t):
                if ch2 == [fld]:
                    mapping = {i + 1: b.op_expr(a) for i, a in enumerate(cs.args)}
                    ins.append((cs.bb, ch2, mir.subst(val2, mapping), st2))
    good = []
    for s in ins:
        base, k, sat = util.affine(s[2])
        if base is not None and mir.strip_sites(peel(base, calls=False)) == var and k == 1:
            good.append(s)
    ctx.check('asc', 'cur:=height+1', len(good) == 1 and len(ins) == 1, (b, h),
              'stores to self.%s inside the loop: %s' % (fld, [show(s[2]) for s in ins]))
    if good:
        sb = good[0][0]
        # the store lies on every path from a successful delivery to the back edge
        for cs in hits:
            tgt = cs.target
            if sb == cs.bb:
                # the delivering call itself advances the cursor (the store sits in the wrapper it calls)
                ctx.ok('asc', 'store-on-every-iteration-path', cs.where(), 'the cursor is advanced inside the delivering call')
                continue
            reach_wo = b.reach_from(tgt, avoid=[sb]) & lb
            ctx.check('asc', 'store-on-every-iteration-path', not (set(back) & reach_wo), cs,
                      'back edge unreachable from on_block without passing the cur_height update')
    # on_complete argument = cur - 1
    oc = util.virtual_sites(prog, CALLBACK, 'on_complete')
    reach_oc = util.bodies_reaching(prog, [x.body for x in oc])
    for cs in b.calls:
        if cs.bb in lb or cs in hits or not util.call_reaches(prog, cs, reach_oc):
            continue
        a = b.op_expr(cs.args[-1])
        base, k, sat = util.affine(a)
        okk = base is not None and peel(base) == st and k == -1
        ctx.check('asc', 'on_complete-arg=cur-1', okk, cs, 'on_complete receives %s' % show(a))
        for w in prog.targets(cs):
            for v in w.calls:
                if v.method == 'on_complete' and v.kind == 'virtual':
                    x = peel(w.op_expr(v.args[-1]))
                    ctx.check('asc', 'wrapper-forwards-height:%s' % w.path, x[0] == 'param' and x[2] == 2, v,
                              'virtual on_complete receives %s' % show(x))


def find_index_ctor(ctx):
    prog = ctx.prog
    out = []
    for cb in prog.bodies.values():
        for i in cb.live:
            for stmt in cb.blocks[i]['stmts']:
                if stmt['k'] == 'assign' and stmt['rv']['k'] == 'aggr' and stmt['rv'].get('akind') == 'adt' \
                        and 'max_height' in stmt['rv']['fields']:
                    out.append((cb, i, stmt))
    if len(out) != 1:
        raise Unrecognised('anchor', 'expected one aggregate with a max_height field, found %d' % len(out))
    return out[0]


def rule_clamp(ctx):
    cb, i, stmt = find_index_ctor(ctx)
    ctx.touch(cb)
    idx = stmt['rv']['fields'].index('max_height')
    op = stmt['rv']['ops'][idx]
    if op['k'] not in ('copy', 'move') or op['place']['p']:
        raise Unrecognised('clamp', 'max_height operand is not a plain local')
    l = op['place']['l']
    # chase simple copies
    defs = cb.defs().get(l, [])
    while len(defs) == 1 and defs[0][0] == 'assign' and defs[0][3]['k'] == 'use' and \
            defs[0][3]['op']['k'] in ('copy', 'move') and not defs[0][3]['op']['place']['p'] and \
            len(cb.defs().get(defs[0][3]['op']['place']['l'], [])) >= 1 and \
            not (1 <= defs[0][3]['op']['place']['l'] <= cb.arg_count):
        l = defs[0][3]['op']['place']['l']
        defs = cb.defs().get(l, [])
    if not defs:
        raise Unrecognised('clamp', 'no definition of max_height value')

    def is_end(e):
        e = peel(e)
        # payload of options.range.end
        for x in mir.walk(e):
            if x[0] == 'field' and x[2] == 'end':
                return True
        return False

    def is_maxknown(e):
        return any(c for c in mir.calls_in(e, lambda nme: nme.endswith('Iterator>::max') or nme.endswith('::max')))

    n = 0
    for d in defs:
        e = peel(cb.call_expr(d[2]) if d[0] != 'assign' else cb.rvalue_expr(d[3]), calls=False)
        if e[0] == 'call' and any(is_end(a) for a in e[2]) and is_maxknown(e):
            # a combinator over end and max_known, e.g. cmp::min(end.unwrap_or(max), max)
            if re.search(r'Ord>?::min$|cmp::min$', e[1]) and any(is_end(a) for a in e[2]) and any(is_maxknown(a) and not is_end(a) for a in e[2]):
                ctx.ok('clamp', 'min(end,max_known)', (cb, d[1]), show(e))
                ctx.ok('clamp', 'none->max_known', (cb, d[1]), 'the other operand of min is max_known')
                n += 2
                continue
            if re.search(r'Option::<.*>::map_or$', e[1]) and len(e[2]) == 3 and is_end(e[2][0]) and is_maxknown(e[2][1]) and not is_end(e[2][1]):
                # end.map_or(max_known, |h| min(h, max_known))
                payload = mir.mk_try(peel(e[2][0], calls=False))
                r = util.closure_apply(cb.prog, e[2][2], [payload])
                r = peel(r, calls=False) if r else r
                okc = bool(r) and r[0] == 'call' and re.search(r'Ord>?::min$|cmp::min$', r[1]) is not None and any(is_end(a) and not is_maxknown(a) for a in r[2]) and \
                    any(is_maxknown(a) and not is_end(a) for a in r[2])
                ctx.check('clamp', 'map_or(max_known, min(end,max_known))', okc, (cb, d[1]), show(e)[:160])
                ctx.ok('clamp', 'none->max_known', (cb, d[1]), 'default of map_or is max_known')
                n += 2
                continue
            if re.search(r'Option::<.*>::unwrap_or$', e[1]) and len(e[2]) == 2 and is_end(e[2][0]) and is_maxknown(e[2][1]):
                ctx.violation('clamp', 'take-end-only-if-end<max_known', (cb, d[1]), 'max_height := end.unwrap_or(max_known): an end above the tip is taken unclamped')
                n += 1
                continue
            raise Unrecognised('clamp', 'max_height defined by unrecognised combinator %s' % show(e)[:200])
        if d[0] != 'assign':
            raise Unrecognised('clamp', 'max_height defined by unrecognised call %s' % show(e)[:200])
        bb = d[1]
        v = cb.rvalue_expr(d[3])
        rels = util.facts_to_rels(cb.facts_at(bb))
        cmp_rels = [r for r in rels if r[0] in ('lt', 'le') and ((is_end(r[1]) and is_maxknown(r[2])) or (is_maxknown(r[1]) and is_end(r[2])))]
        none_fact = any(f[0] == 'is' and is_end(f[1]) and f[2] == ('None',) for f in rels)
        some_fact = any(f[0] == 'is' and is_end(f[1]) and 'Some' in f[2] for f in rels)
        if peel(v, calls=False)[0] == 'phi':
            # a value chosen elsewhere and only copied here: judging the join as one value would accept anything
            raise Unrecognised('clamp', 'max_height is a join of several values that could not be split: %s' % show(v)[:200])
        if is_end(v) and not is_maxknown(v):
            # must hold: end < max_known (or <=)
            ok = any(is_end(r[1]) and is_maxknown(r[2]) for r in cmp_rels)
            ctx.check('clamp', 'take-end-only-if-end<max_known', ok, (cb, bb),
                      'max_height := end under [%s]' % '; '.join(util.rel_str(r) for r in cmp_rels),
                      bad_detail='max_height := end under [%s] — this selects max(end, tip) or an unclamped end'
                      % '; '.join(util.rel_str(r) for r in rels if r[0] in ('lt', 'le', 'eq', 'ne')))
            n += 1
        elif is_maxknown(v):
            # must hold: end is None, or max_known <= end  (i.e. not end < max_known)
            ok = none_fact or any(is_maxknown(r[1]) and is_end(r[2]) for r in cmp_rels) or (not some_fact and not cmp_rels)
            # a def reachable both from None and from Some(!lt) joins -> facts are intersected; accept
            # when no contradicting relation (end < max_known) holds
            contra = any(is_end(r[1]) and is_maxknown(r[2]) for r in cmp_rels)
            ctx.check('clamp', 'take-max_known-otherwise', ok and not contra, (cb, bb),
                      'max_height := max_known under [%s]' % '; '.join(util.rel_str(r) if r[0] != 'is' else 'end is %s' % (r[2],) for r in rels if r[0] in ('lt', 'le', 'is')))
            n += 1
        else:
            ctx.violation('clamp', 'unexpected-value', (cb, bb), 'max_height := %s' % show(v))
            n += 1
    # max_known is the maximum over the height keys
    allv = [cb.rvalue_expr(d[3]) if d[0] == 'assign' else cb.call_expr(d[2]) for d in defs]
    mk = [c for v in allv for c in mir.calls_in(v, lambda nme: nme.endswith('Iterator::max') or nme.endswith('Iterator>::max'))]
    okm = bool(mk) and all(any(k2 for k2 in mir.calls_in(c, lambda nme: nme.endswith('::keys'))) for c in mk)
    ctx.check('clamp', 'max_known=max(keys)', okm, cb, 'max_known = %s' % (show(mk[0]) if mk else '?'))


def rule_trim(ctx):
    cb, i, stmt = find_index_ctor(ctx)
    prog = ctx.prog
    rets = [cs for cs in cb.calls if cs.is_('~HashMap<.*>::retain', '~::retain$')]
    if len(rets) != 1:
        raise Unrecognised('trim', 'expected one retain call in %s, found %d' % (cb.path, len(rets)))
    cs = rets[0]
    clo = peel(cb.op_expr(cs.args[1]))
    if clo[0] != 'aggr' or clo[1] != 'closure':
        raise Unrecognised('trim', 'retain argument is not a closure')
    cbody = prog.bodies[clo[2]]
    ctx.touch(cbody)
    upv = {str(k): peel(v) for k, v in clo[3]}
    dnf = util.bool_function_dnf(cbody)
    true_paths = []
    for rels, v, p in dnf:
        v = peel(v) if v else v
        if v and v[0] == 'bool':
            if v[1]:
                true_paths.append(rels)
        else:
            # a range built outside the closure and captured (`let keep = lo..=hi; retain(|h, _| keep.contains(h))`):
            # express the returned test in the creator's frame before expanding the membership test
            v2 = mir.subst(v, {1: clo})
            ex = util.expand_rel(util.norm_rel(v2, True))
            if len(ex) > 1:
                ex = [(r[0], ('creator', r[1]) if not mir.contains(r[1], lambda x: x[0] == 'param' and x[1] == cbody.path) else r[1],
                       ('creator', r[2]) if not mir.contains(r[2], lambda x: x[0] == 'param' and x[1] == cbody.path) else r[2]) for r in ex]
                true_paths.append(rels + ex)
            else:
                true_paths.append(rels + util.expand_rel(util.norm_rel(v, True)))

    def resolve(e):
        """map closure-relative expressions to the creator's: upvar fields and the key parameter"""
        if isinstance(e, tuple) and e and e[0] == 'creator':
            x = peel(e[1], calls=False)
            if x[0] == 'call' and x[1].endswith('saturating_sub'):
                return ('call', x[1], tuple(resolve(('creator', a)) for a in x[2]))
            if x[0] == 'int':
                return x
            return ('upvar', peel(x))
        e = peel(e, calls=False)
        root, ch = field_chain(e)
        if root[0] == 'param' and root[2] == 1 and ch and ch[0] in upv:
            return ('upvar', peel(upv[ch[0]]))
        if root[0] == 'param' and root[2] == 2:
            return ('key',)
        if e[0] == 'call':
            return ('call', e[1], tuple(resolve(a) for a in e[2]))
        if e[0] == 'int':
            return e
        return ('other', show(e))

    def is_maxheight(x):
        # the clamp local: the same local that feeds the max_height field
        idx = stmt['rv']['fields'].index('max_height')
        mh = peel(cb.op_expr(stmt['rv']['ops'][idx]))
        return x[0] == 'upvar' and mir.strip_sites(x[1]) == mir.strip_sites(mh)

    def is_start_minus(x):
        # start or start.saturating_sub(1)
        if x[0] == 'upvar':
            root, ch = field_chain(x[1])
            return ch[-2:] == ['range', 'start'], 0
        if x[0] == 'call' and x[1].endswith('saturating_sub') and x[2][1] == ('int', 1, 'u64'):
            ok, _ = is_start_minus(x[2][0])
            return ok, -1
        return False, 0

    if len(true_paths) != 1:
        raise Unrecognised('trim', 'retain predicate has %d accepting paths' % len(true_paths))
    rels = true_paths[0]
    lower = upper = None
    for r in rels:
        if r[0] not in ('lt', 'le'):
            continue
        a, b2 = resolve(r[1]), resolve(r[2])
        if b2 == ('key',):   # a <=/< key  -> lower bound
            lower = (r[0], a)
        elif a == ('key',):  # key <=/< b -> upper bound
            upper = (r[0], b2)
    if lower is None or upper is None:
        raise Unrecognised('trim', 'retain predicate is not lower<=h<=upper: %s' % [util.rel_str(r) for r in rels])
    okl, k = is_start_minus(lower[1])
    # keeps >= start-1 or >= start (le), or > start-1 (lt with -1)
    keeps_start = okl and ((lower[0] == 'le') or (lower[0] == 'lt' and k == -1))
    ctx.check('trim', 'lower-keeps-start', keeps_start, cs,
              'retain keeps h with %s %s h' % (lower[1], '<=' if lower[0] == 'le' else '<'))
    keeps_prev = okl and lower[0] == 'le' and k == -1
    ctx.check('trim', 'lower-keeps-start-1-for-verify', keeps_prev, cs,
              'retain keeps start-1 (needed by the prev-hash check of the first block, C09)')
    ctx.check('trim', 'upper-keeps-max_height', upper[0] == 'le' and is_maxheight(upper[1]), cs,
              'retain keeps h %s %s' % ('<=' if upper[0] == 'le' else '<', upper[1][0]))
    # trimming is applied to the same map that is stored in the struct
    recv = peel(cb.op_expr(cs.args[0]))
    idxb = stmt['rv']['fields'].index('block_index') if 'block_index' in stmt['rv']['fields'] else None
    if idxb is not None:
        stored = peel(cb.op_expr(stmt['rv']['ops'][idxb]))
        ctx.check('trim', 'trimmed-map-is-stored-map', mir.strip_sites(recv) == mir.strip_sites(stored), cs,
                  'retain on %s, stored %s' % (show(recv)[:80], show(stored)[:80]))


def rule_names(ctx):
    prog = ctx.prog
    n = 0
    for ob in prog.trait_method_impls(CALLBACK, 'on_complete'):
        ren = [cs for cs in ob.calls if cs.is_('std::fs::rename')]
        if not ren:
            continue
        ctx.touch(ob)
        # fields assigned from on_start's parameter
        start_fields = set()
        for sb in prog.trait_method_impls(CALLBACK, 'on_start'):
            if sb.impl_self == ob.impl_self:
                ctx.touch(sb)
                for bb, ch, val, st in util.self_field_stores(sb):
                    v = peel(val)
                    if v[0] == 'param' and v[2] == 2:
                        start_fields.add(ch[0])
        # fields assigned from on_complete's own parameter (balances.end_height)
        end_fields = set()
        for bb, ch, val, st in util.self_field_stores(ob):
            v = peel(val)
            if v[0] == 'param' and v[2] == 2:
                end_fields.add(ch[0])
        for cs in ren:
            dst = ob.op_expr(cs.args[1])
            f = None
            for c in mir.calls_in(dst, lambda nme: re.search(r'fmt::Arguments::<.*>::new$', nme)):
                bsite = prog.bodies.get(c[3][0])
                f = mir.decode_fmt(bsite, bsite.call_at[c[3][1]])
            if f is None:
                ctx.violation('names', 'final-name-without-heights:%s' % ob.impl_self, cs,
                              'rename destination %s carries no formatted heights' % show(dst)[:120])
                continue
            roles = []
            for p in f.args:
                e = peel(p[3])
                root, ch = field_chain(e)
                if root[0] == 'param' and root[2] == 1 and ch and ch[0] in start_fields:
                    roles.append('start')
                elif (root[0] == 'param' and root[2] == 2) or (root[0] == 'param' and root[2] == 1 and ch and ch[0] in end_fields):
                    roles.append('end')
                else:
                    roles.append('other')
            hs = [r for r in roles if r != 'other']
            ctx.check('names', 'start-then-end:%s' % ob.impl_self, hs == ['start', 'end'], cs,
                      'final name template %r with argument roles %s' % (f.literal_skeleton, roles))
            n += 1
            # the two numeric placeholders are separated by literal text
            ctx.check('names', 'plain-decimal-heights:%s' % ob.impl_self,
                      all(p[1] == 'Display' and p[2]['default'] for p in f.args), cs,
                      'heights rendered with plain {} placeholders')


def rule_slice(ctx):
    prog = ctx.prog
    for ob in prog.trait_method_impls(CALLBACK, 'on_block'):
        short = ob.impl_self.split('::')[-1]
        if short not in ('CsvDump', 'OpReturn'):
            continue
        ctx.touch(ob)
        written = set(ch[0] for bb, ch, val, st in util.self_field_stores(ob))
        outs = [cs for cs in ob.calls if cs.is_('~Write>::write_all$', '~::write_all$', 'std::io::_print', '~::_print$')]
        if not outs:
            ctx.violation('slice', 'no-output-call:%s' % short, ob, 'no output call found in per-block callback')
        for cs in outs:
            data = ob.op_expr(cs.args[-1])
            data = prog.inline(data, 1)
            bad = util.mentions_self_field(data, written)
            ctx.check('slice', 'output-independent-of-carried-state:%s' % short, not bad, cs,
                      'row/line argument does not read self.{%s}' % ','.join(sorted(written)))


def rule_args(ctx):
    """the range the loop and the clamp see is the range the user typed: -s/-e reach options.range unchanged"""
    prog = ctx.prog
    pa = prog.one('parse_args')
    ctx.touch(pa)
    agg = [canon(pa.rvalue_expr(s['rv'])) for i in pa.live for s in pa.blocks[i]['stmts']
           if s['k'] == 'assign' and s['rv']['k'] == 'aggr' and s['rv'].get('adt', '').endswith('ParserOptions')]
    want = 'range: new(unwrap_or(copied(get_one(a1, "start")), 0), copied(get_one(a1, "end")))?'
    ctx.check('args', 'range=cli-values-unchanged', len(agg) == 1 and want in agg[0], pa,
              'ParserOptions.range = BlockHeightRange::new(--start or 0, --end)?',
              bad_detail='ParserOptions.range is built as %s' % (re.findall(r'range: .*', agg[0])[0][:200] if agg else '?'))
    bn = prog.one('BlockHeightRange::new')
    ctx.touch(bn)
    rets = sorted((canon(bn.rvalue_expr(d[3])), tuple(util.guards_at(bn, d[1]))) for d in bn.ret_defs() if d[0] == 'assign')
    okn = ('Result::Ok{0: BlockHeightRange::BlockHeightRange{start: a1, end: a2}}', ()) in rets
    ctx.check('args', 'range-ctor-stores-both-bounds', okn, bn, 'BlockHeightRange::new = %s' % [r[0] for r in rets])
    err = [r for r in rets if r[0].startswith('Result::Err')]
    ctx.check('args', 'rejects-only-start>=end', len(err) == 1 and err[0][1] == ('a2 is Some', 'a2? <= a1'), bn,
              'Err only when end is given and end <= start (%s)' % ([e[1] for e in err]))
    dflt = prog.one('BlockHeightRange::is_default')
    # is_default() is true exactly for (start == 0, end == None): every path returning true carries both tests, every
    # path returning false carries the negation of one of them (paths = incoming edges where the value is set)
    outs = []
    for d in dflt.ret_defs():
        v = canon(dflt.rvalue_expr(d[3])) if d[0] == 'assign' else canon(dflt.call_expr(d[2]))
        for g in util.path_guard_sets(dflt, d[1]):
            if v == 'is_none(self.end)':
                outs.append(('true', sorted(g + ['self.end is None'])))
                outs.append(('false', sorted(g + ['self.end is Some'])))
            elif v == 'is_some(self.end)':
                outs.append(('false', sorted(g + ['self.end is None'])))
                outs.append(('true', sorted(g + ['self.end is Some'])))
            else:
                outs.append((v, sorted(g)))
    t_ok = [o for o in outs if o[0] == 'true']
    f_ok = [o for o in outs if o[0] == 'false']
    ctx.check('args', 'default-range', bool(t_ok) and all('self.start <= 0' in g and 'self.end is None' in g for _, g in t_ok) and len(t_ok) + len(f_ok) == len(outs), dflt,
              'is_default is true only for start == 0 && end.is_none(): %s' % t_ok)
    ctx.check('args', 'default-range-guards', bool(f_ok) and all('0 < self.start' in g or 'self.end is Some' in g for _, g in f_ok), dflt,
              'is_default is false only when start > 0 or an end is given: %s' % f_ok)
    wr = [(b.path, ch) for b in prog.bodies.values() for bb, idx, pl, rv, st in b.stores()
          for el in pl['p'] if el['k'] == 'field' and (el.get('of') or '').endswith('BlockHeightRange')]
    ctx.check('args', 'range-immutable', not wr, None, 'stores to BlockHeightRange fields: %s' % wr)


def run(ctx):
    ctx.trusted += ['rustc MIR construction', 'core::ops::Range/RangeInclusive iteration semantics',
                    'HashMap::retain/keys semantics']
    ctx.assumptions += ['no unsafe code in the crate (checked: meta.unsafe_blocks == 0)',
                        'virtual Callback calls dispatch to one of the five local impls']
    ctx.guard('upper', rule_upper)
    ctx.guard('start', rule_start)
    ctx.guard('once', rule_once)
    ctx.guard('asc', rule_asc)
    ctx.guard('clamp', rule_clamp)
    ctx.guard('trim', rule_trim)
    ctx.guard('names', rule_names)
    ctx.guard('slice', rule_slice)
    ctx.guard('args', rule_args)
    ctx.floor('upper', 1)
    ctx.floor('start', 5)
    ctx.floor('once', 7)
    ctx.floor('asc', 5)
    ctx.floor('clamp', 3)
    ctx.floor('trim', 3)
    ctx.floor('names', 6)
    ctx.floor('slice', 5)
    ctx.floor('args', 6)
