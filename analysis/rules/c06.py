"""C06 — fork coins: scripts are tokenised by Bitcoin push rules and typed by template."""
import re

import mir
import util
from mir import canon, peel, Unrecognised

EXPLANATION = (
    "Static decision of the structural clauses of C06 on the MIR of script/custom.rs and the coin table: "
    "(arms) push-length arms of the tokenizer: PushBytes(n)->n, opcodes 76/77/78 -> operand widths 1/2/4, "
    "others -> 0; (cursor) affine bookkeeping of the instruction pointer relative to the opcode position ip0: "
    "the PUSHDATA operand is read from ip0+1, the cursor advances by the operand width in the arm and by 1 in "
    "the caller, so data starts at ip0+1+w and the cursor ends at ip0+1+w+len; (le) operand bytes are combined "
    "little-endian; (eof) the data slice is dominated by ip+len <= n_bytes, the other edge returns "
    "UnexpectedEof which the entry point maps to NotRecognised without address, n_bytes = bytes.len(); (noop) "
    "zero-length tokens are pushed as Op unless their class is NoOp; (templates) the five template arrays "
    "evaluate to the reference opcode sequences, Data matches Data by kind, the matcher requires equal "
    "length and element-wise equality; (addr) P2PK/P2PKH use the coin's version byte parameter, P2SH the "
    "constant 5, Base58Check piece sequence version||h||sha256d(version||h)[0..4]; (table) the six fork "
    "coins' version bytes equal the published values and reach the evaluator unchanged. Decides these for "
    "all byte strings; hash/base58 libraries are trusted.")
RULE = ("instances = tokenizer arms, cursor stores/slices with affine offsets, templates, address constructions, "
        "coin constants, flow hops of version_id; non-trivial = carries an offset/constant/guard obligation")


def _nb(xs):
    """the evaluator keeps n_bytes == bytes.len() (written only by the constructor, checked by C06.eof): a test against
    bytes.len() is a test against n_bytes"""
    return sorted(set(x.replace('len(self.bytes)', 'self.n_bytes') for x in xs))


def guards_at(body, bb):
    return _nb(util.guards_at(body, bb))


def guards_for(body, bb, operand):
    return _nb(util.guards_for(body, bb, operand))


EV = "ScriptEvaluator::<'a>::"
WIDTHS = {76: 1, 77: 2, 78: 4}


def ip_stores(body):
    return [(bb, canon(val), val, st) for bb, ch, val, st in util.self_field_stores(body) if ch == ['ip']]


def rule_arms(ctx):
    prog = ctx.prog
    m = prog.one(EV + 'maybe_push_data')
    ctx.touch(m)
    ru = [cs for cs in m.calls if mir.method_name(cs.name) == 'read_uint']
    seen = {}
    for cs in ru:
        w = mir.int_value(m.op_expr(cs.args[1]))
        g = guards_at(m, cs.bb)
        codes = [int(x) for gg in g for x in re.findall(r'a2\.code in \{(\d+)\}', gg)]
        if len(codes) != 1:
            ctx.violation('arms', 'read_uint-arm-without-opcode', cs, 'guards %s' % g)
            continue
        seen[codes[0]] = w
        ctx.check('arms', 'pushdata-width:%d' % codes[0], WIDTHS.get(codes[0]) == w, cs,
                  'opcode %d reads a %s-byte length operand' % (codes[0], w))
        ctx.check('arms', 'not-pushbytes-class:%d' % codes[0], any('a3 is ' in gg and 'PushBytes' not in gg for gg in g), cs,
                  'arm reached only when class is not PushBytes')
    ctx.check('arms', 'pushdata-arms-complete', set(seen) == {76, 77, 78}, m, 'arms for opcodes %s' % sorted(seen))
    # returned length: PushBytes(n) as usize | 0 | the operand values
    rets = [canon(m.rvalue_expr(d[3])) for d in m.ret_defs() if d[0] == 'assign']
    ok_ret = [r for r in rets if r.startswith('Result::Ok')]
    exp_parts = {'((a3 as PushBytes).0 as usize)', '0'} | {'read_uint(%s, %d)?' % ('ARG', w) for w in (1, 2, 4)}
    # the Ok payloads, whether they are joined in one variable (phi) or returned arm by arm
    got = set()
    for r in ok_ret:
        inner = r[len('Result::Ok{0: '):-1]
        parts = inner[4:-1].split(' | ') if inner.startswith('phi(') else [inner]
        got |= set(re.sub(r'read_uint\(.*?, (\d)\)\?', r'read_uint(ARG, \1)?', x) for x in parts)
    ctx.check('arms', 'length-sources', got == exp_parts, m, 'push length = %s' % sorted(got))
    # PushBytes(n): the arm is taken on the PushBytes class
    for d in m.defs().items():
        pass
    pb = []
    for l, ds in m.defs().items():
        for d in ds:
            if d[0] == 'assign' and canon(m.rvalue_expr(d[3])) == '((a3 as PushBytes).0 as usize)':
                pb.append(guards_at(m, d[1]))
    ctx.check('arms', 'pushbytes-arm-guard', pb == [['a3 is PushBytes']], m, 'direct push length taken under %s' % pb)
    # default arm returns 0 for every other opcode
    z = []
    for l, ds in m.defs().items():
        for d in ds:
            if d[0] == 'assign' and canon(m.rvalue_expr(d[3])) == '0' and m.local_ty(l) == 'usize':
                z.append(guards_at(m, d[1]))
    for d in m.ret_defs():
        if d[0] == 'assign' and canon(m.rvalue_expr(d[3])) == 'Result::Ok{0: 0}':
            z.append(guards_at(m, d[1]))
    ctx.check('arms', 'default-arm-zero', len(z) == 1 and any('a2.code notin {76,77,78}' in g for g in z[0]), m, 'other opcodes -> 0 under %s' % z)
    # the caller classifies the opcode at self.ip with the Legacy context
    ev = prog.one(EV + 'eval')
    ctx.touch(ev)
    c = [cs for cs in ev.calls if mir.method_name(cs.name) == 'maybe_push_data']
    ctx.check('arms', 'opcode-and-class-of-same-byte', len(c) == 1 and [canon(a) for a in ev.arg_exprs(c[0])] ==
              ['self', 'self.bytes[self.ip]', 'classify(self.bytes[self.ip], ClassifyContext::Legacy{})'], ev,
              'maybe_push_data(opcode at ip, its Legacy class)')


def rule_cursor(ctx):
    prog = ctx.prog
    m = prog.one(EV + 'maybe_push_data')
    ev = prog.one(EV + 'eval')
    # 1. in the arm: operand slice start relative to ip0 and the arm's advance
    arm_adv = {}
    for cs in m.calls:
        if mir.method_name(cs.name) != 'read_uint':
            continue
        w = mir.int_value(m.op_expr(cs.args[1]))
        sl = peel(m.op_expr(cs.args[0]), calls=False)
        # &self.bytes[RangeFrom{start: E}]
        start = None
        if sl[0] == 'call' and mir.method_name(sl[1]) == 'index':
            rng = peel(sl[2][1], calls=False)
            base = canon(sl[2][0])
            if rng[0] == 'aggr' and 'RangeFrom' in rng[2] and base == 'self.bytes':
                start = dict(rng[3])['start']
        if start is None:
            ctx.unrecognised('cursor', 'operand-slice:w=%s' % w, cs, 'operand is read from %s' % canon(sl))
            continue
        base, k, sat = util.affine(start)
        # stores to ip that dominate this call (none expected)
        pre = sum((util.affine(v)[1]) for bb, c, v, st in ip_stores(m) if m.dominates(bb, cs.bb) and bb != cs.bb)
        off = k + pre if (base is not None and canon(base) == 'self.ip') else None
        ctx.check('cursor', 'operand-offset:w=%d' % w, off == 1, cs,
                  'length operand of the %d-byte PUSHDATA form is read at ip0%+d' % (w, off if off is not None else 0),
                  bad_detail='length operand of the %d-byte PUSHDATA form is read from ip0%+d, i.e. starting at the opcode byte '
                  'itself instead of the byte after it: the push length is wrong for every PUSHDATA%d script'
                  % (w, off if off is not None else 0, {1: 1, 2: 2, 4: 4}[w]) if off is not None else 'operand slice start %s is not ip-relative' % canon(start))
        # advance inside the arm after the read
        adv = [(bb, util.affine(v)) for bb, c, v, st in ip_stores(m) if cs.target is not None and bb in m.reach_from(cs.target)]
        tot = sum(a[1][1] for a in adv if a[1][0] is not None and canon(a[1][0]) == 'self.ip')
        arm_adv[w] = tot
        ctx.check('cursor', 'arm-advance:w=%d' % w, len(adv) == 1 and tot == w, cs,
                  'the arm advances ip by %d after reading a %d-byte operand' % (tot, w))
    # 2. in eval: advance by 1 between the call and the data slice, slice = [ip, ip+len), then ip += len
    c = [cs for cs in ev.calls if mir.method_name(cs.name) == 'maybe_push_data']
    if len(c) != 1:
        raise Unrecognised('cursor', 'expected one maybe_push_data call in eval')
    call = c[0]
    # no ip store between loop header and the call
    lp = ev.innermost_loop(call.bb)
    if lp is None:
        raise Unrecognised('cursor', 'tokenizer call is not inside a loop')
    h, lb, back = lp
    stores = ip_stores(ev)
    before = [s for s in stores if s[0] in lb and ev.dominates(s[0], call.bb) and s[0] != call.bb]
    ctx.check('cursor', 'opcode-fetched-at-ip0', not before, call, 'no cursor update between the loop head and the opcode fetch')
    data_idx = [cs for cs in ev.calls if mir.method_name(cs.name) == 'index' and 'Range::Range' in canon(ev.op_expr(cs.args[1]))]
    if len(data_idx) != 1:
        raise Unrecognised('cursor', 'expected one data slice in eval, found %d' % len(data_idx))
    ds = data_idx[0]
    rng = peel(ev.op_expr(ds.args[1]), calls=False)
    f = dict(rng[3])
    sb, sk, _ = util.affine(f['start'])
    # end = start + len where len is the call's payload
    lenexpr = 'maybe_push_data(self, self.bytes[self.ip], classify(self.bytes[self.ip], ClassifyContext::Legacy{}))?'
    between = [s for s in stores if ev.dominates(call.bb, s[0]) and ev.dominates(s[0], ds.bb)]
    adv1 = sum(util.affine(s[2])[1] for s in between)
    ctx.check('cursor', 'caller-advance-before-data', len(between) == 1 and adv1 == 1 and canon(sb) == 'self.ip' and sk == 0, ds,
              'caller advances ip by %d before the data slice, which starts at ip%+d' % (adv1, sk))
    ctx.check('cursor', 'data-slice-length', canon(f['end']) == '(self.ip + %s)' % lenexpr, ds, 'data slice = [ip, ip+len)')
    for w, a in sorted(arm_adv.items()):
        ctx.check('cursor', 'data-start:w=%d' % w, a + adv1 + sk == 1 + w, ds,
                  'data of the %d-byte PUSHDATA form starts at ip0+%d (1 opcode + %d operand bytes)' % (w, a + adv1 + sk, w))
    ctx.check('cursor', 'data-start:direct', adv1 + sk == 1, ds, 'data of a direct push starts at ip0+%d' % (adv1 + sk))
    after = [s for s in stores if ds.target is not None and s[0] in ev.reach_from(ds.target) and s[0] in lb and ev.dominates(ds.bb, s[0])]
    ctx.check('cursor', 'advance-by-len-after-data', len(after) == 1 and after[0][1] == '(self.ip + %s)' % lenexpr, ds,
              'after the push the cursor moves by len: %s' % [s[1] for s in after])
    ctx.check('cursor', 'ip-stores-total', len(stores) == 2, ev, '%d stores to ip in eval' % len(stores))
    # loop guard
    g = guards_at(ev, call.bb)
    ctx.check('cursor', 'loop-guard', 'self.ip < self.n_bytes' in g, call, 'token loop runs while ip < n_bytes')


def rule_le(ctx):
    prog = ctx.prog
    r = prog.one(EV + 'read_uint')
    ctx.touch(r)
    rets = [(canon(r.rvalue_expr(d[3]) if d[0] == 'assign' else r.call_expr(d[2])), [x for x in guards_at(r, d[1]) if 'next(' not in x]) for d in r.ret_defs()]
    # the first `size` bytes with their positions: enumerate().take(size) over the slice, or enumerate() over its
    # first `size` bytes
    items = ['each(take(enumerate(a1), a2))', 'each(enumerate(a1[Range::Range{start: 0, end: a2}]))']
    les = ['Result::Ok{0: sum(((%s.1 as usize) << (%s.0 * 8)))}' % (it, it) for it in items]
    ok = [x for x in rets if x[0].startswith('Result::Ok')]
    good = len(ok) == 1 and (ok[0][0] in les or 'from_le_bytes' in ok[0][0])
    ctx.check('le', 'little-endian-combination', good, r, 'read_uint = %s' % (ok[0][0] if ok else rets))
    err = [x for x in rets if x[0] == 'Result::Err{0: ScriptError::UnexpectedEof{}}']
    ctx.check('le', 'short-operand-is-eof', len(err) == 1 and err[0][1] == ['len(a1) < a2'], r, 'Err(UnexpectedEof) under %s' % (err[0][1] if err else '?'))
    if ok:
        ctx.check('le', 'value-guarded-by-length', 'a2 <= len(a1)' in ok[0][1], r, 'Ok under %s' % ok[0][1])


def rule_eof(ctx):
    prog = ctx.prog
    ev = prog.one(EV + 'eval')
    lenexpr = 'maybe_push_data(self, self.bytes[self.ip], classify(self.bytes[self.ip], ClassifyContext::Legacy{}))?'
    ds = [cs for cs in ev.calls if mir.method_name(cs.name) == 'index' and 'Range::Range' in canon(ev.op_expr(cs.args[1]))]
    for cs in ds:
        g = guards_at(ev, cs.bb)
        ctx.check('eof', 'data-slice-guard', '(self.ip + %s) <= self.n_bytes' % lenexpr in g, cs, 'data slice under %s' % [x for x in g if 'n_bytes' in x])
    errs = [(canon(ev.rvalue_expr(d[3]) if d[0] == 'assign' else ev.call_expr(d[2])), guards_at(ev, d[1]), d[1]) for d in ev.ret_defs()]
    e = [x for x in errs if x[0] == 'Result::Err{0: ScriptError::UnexpectedEof{}}']
    ctx.check('eof', 'overrun-returns-eof', len(e) == 1 and 'self.n_bytes < (self.ip + %s)' % lenexpr in e[0][1], ev,
              'UnexpectedEof under %s' % (e[0][1] if e else '?'))
    # operand-too-short paths of the tokenizer are propagated with `?`
    prop = [d for d in ev.ret_defs() if d[0] == 'call' and mir.method_name(d[2].name) == 'from_residual'
            and canon(ev.call_expr(d[2])).startswith('from_residual(')]
    ctx.check('eof', 'tokenizer-error-propagated', len(prop) == 1, ev, '`?` on maybe_push_data')
    # entry point mapping
    en = prog.one('custom::eval_from_bytes_custom')
    ctx.touch(en)
    rets = {}
    for d in en.ret_defs():
        v = en.rvalue_expr(d[3]) if d[0] == 'assign' else en.call_expr(d[2])
        rets[canon(v)] = guards_at(en, d[1])
    nr = 'EvaluatedScript::EvaluatedScript{address: Option::None{}, pattern: ScriptPattern::NotRecognised{}}'
    ctx.check('eof', 'eof->NotRecognised-no-address', rets.get(nr) == ['(eval(new(a1)) as Err).0 is UnexpectedEof', 'eval(new(a1)) is Err'], en,
              'Err(UnexpectedEof) -> %s' % ('NotRecognised/None' if nr in rets else sorted(rets)))
    ctx.check('eof', 'ok->eval_from_stack', rets.get('eval_from_stack(eval(new(a1))?, a2)') == ['eval(new(a1)) is Ok'], en, 'Ok(stack) -> eval_from_stack(stack, version)')
    # n_bytes: written only by the constructor, from bytes.len()
    nw = prog.one(EV + 'new')
    ctx.touch(nw)
    ctx.check('eof', 'n_bytes=len(bytes)', canon(nw.ret_expr()) == 'ScriptEvaluator::ScriptEvaluator{bytes: a1, n_bytes: len(a1), ip: 0}', nw, canon(nw.ret_expr()))
    wr = []
    for b in prog.bodies.values():
        if b.impl_self and 'ScriptEvaluator' in b.impl_self:
            wr += [(b.path, ch) for bb, ch, val, st in util.self_field_stores(b) if ch[0] in ('n_bytes', 'bytes')]
    ctx.check('eof', 'n_bytes-immutable', not wr, nw, 'stores to n_bytes/bytes outside the constructor: %s' % wr)


def rule_noop(ctx):
    prog = ctx.prog
    ev = prog.one(EV + 'eval')
    lenc = 'maybe_push_data(self, self.bytes[self.ip], classify(self.bytes[self.ip], ClassifyContext::Legacy{}))'
    pushes = [cs for cs in ev.calls if mir.method_name(cs.name) == 'push']
    ops = [cs for cs in pushes if canon(ev.op_expr(cs.args[1])).startswith('StackElement::Op')]
    dat = [cs for cs in pushes if canon(ev.op_expr(cs.args[1])).startswith('StackElement::Data')]
    ctx.check('noop', 'one-op-push-one-data-push', len(ops) == 1 and len(dat) == 1, ev, '%d Op push(es), %d Data push(es)' % (len(ops), len(dat)))
    for cs in ops:
        g = guards_at(ev, cs.bb)
        # ne(class, NoOp): resolve the promoted constant
        cmpc = [c2 for c2 in ev.calls if mir.method_name(c2.name) == 'ne' and ev.dominates(c2.bb, cs.bb)]
        rhs = canon(mir.unname(peel(ev.op_expr(cmpc[0].args[1])))) if cmpc else '?'
        ctx.check('noop', 'op-pushed-unless-noop', any(x == 'classify(self.bytes[self.ip], ClassifyContext::Legacy{}) != Class::NoOp{}' for x in g) and rhs == 'Class::NoOp{}', cs,
                  'Op token pushed under %s with rhs %s' % ([x for x in g if 'classify' in x and 'maybe_push_data' not in x], rhs))
        ctx.check('noop', 'op-only-for-zero-length', '%s? <= 0' % lenc in g or '%s <= 0' % lenc in g, cs, 'Op token only when push length is 0')
        ctx.check('noop', 'op-is-the-fetched-opcode', canon(ev.op_expr(cs.args[1])) == 'StackElement::Op{0: self.bytes[self.ip]}', cs, canon(ev.op_expr(cs.args[1])))
    for cs in dat:
        g = guards_for(ev, cs.bb, cs.args[1])
        ctx.check('noop', 'data-only-for-positive-length', any(x.startswith('0 < %s' % lenc) for x in g), cs, 'Data token only when push length > 0')
    # the token vector is the one matched against the templates and returned
    r = [canon(ev.rvalue_expr(d[3])) for d in ev.ret_defs() if d[0] == 'assign' and canon(ev.rvalue_expr(d[3])).startswith('Result::Ok')]
    ctx.check('noop', 'pattern-from-same-tokens', r == ['Result::Ok{0: Stack::Stack{pattern: eval_script_pattern(with_capacity(10)), elements: with_capacity(10)}}'], ev, '%s' % r)


TEMPLATES = {
    'Pay2PublicKeyHash': [118, 169, 'D', 136, 172],
    'Pay2PublicKey': ['D', 172],
    'Pay2ScriptHash': [169, 'D', 135],
    'OpReturn': [106, 'D'],
    'Pay2MultiSig': [82, 'D', 'D', 'D', 83, 174],
}


def parse_template(s):
    m = re.match(r'^match_stack_pattern\(a1, \[(.*)\]\)$', s)
    if not m:
        return None
    out = []
    for el in m.group(1).split(', '):
        mo = re.match(r'^StackElement::Op\{0: (\d+)\}$', el)
        if mo:
            out.append(int(mo.group(1)))
        elif el == 'StackElement::Data{0: new()}':
            out.append('D')
        else:
            return None
    return out


def rule_templates(ctx):
    prog = ctx.prog
    p = prog.one(EV + 'eval_script_pattern')
    ctx.touch(p)
    seen = {}
    for d in p.ret_defs():
        v = p.rvalue_expr(d[3]) if d[0] == 'assign' else p.call_expr(d[2])
        c = canon(v)
        g = guards_at(p, d[1])
        pos = [x for x in g if x.startswith('match_stack_pattern(')]
        neg = [x[1:] for x in g if x.startswith('!match_stack_pattern(')]
        mvar = re.match(r'^ScriptPattern::(\w+)\{', c)
        var = mvar.group(1) if mvar else c
        if var == 'NotRecognised':
            ctx.check('templates', 'default-after-all-templates', not pos and len(neg) == 5, (p, d[1]), 'NotRecognised when no template matches (%d negations)' % len(neg))
            continue
        if var == 'Error':
            continue  # unreachable defensive arm (data() of a Data element cannot fail)
        if len(pos) != 1:
            ctx.violation('templates', 'outcome-without-template:%s' % var, (p, d[1]), 'guards %s' % g)
            continue
        t = parse_template(pos[0])
        seen[var] = t
        ctx.check('templates', 'template:%s' % var, t == TEMPLATES.get(var), (p, d[1]), '%s <- %s' % (var, t),
                  bad_detail='%s is reported for token sequence %s, reference template is %s' % (var, t, TEMPLATES.get(var)))
        if var == 'OpReturn':
            # the data token's bytes: through the data() accessor or by matching the element directly
            dpath = set(b2.path for b2 in prog.find('StackElement::data'))
            ci = canon(prog.inline_only(p.rvalue_expr(d[3]), dpath)) if dpath else c
            ctx.check('templates', 'opreturn-payload=data-token', ci == 'ScriptPattern::OpReturn{0: from_utf8_lossy((a1[1] as Data).0)}', (p, d[1]), ci)
    ctx.check('templates', 'five-templates', set(seen) == set(TEMPLATES), p, 'templates for %s' % sorted(seen))
    # templates are pairwise non-overlapping (different length or a differing opcode position), so order is irrelevant
    ts = list(TEMPLATES.items())
    # matcher
    mt = prog.one(EV + 'match_stack_pattern')
    ctx.touch(mt)
    rets = []
    for d in mt.ret_defs():
        alts = util.value_alternatives(mt, d[3]['op']) if d[0] == 'assign' and d[3]['k'] == 'use' else None
        if alts:
            here = set(guards_at(mt, d[1]))
            rets.extend((canon(e), tuple(sorted(here | set(guards_at(mt, bb))))) for e, bb in alts)
        else:
            rets.append((canon(mt.rvalue_expr(d[3]) if d[0] == 'assign' else mt.call_expr(d[2])), tuple(guards_at(mt, d[1]))))
    # two accepted spellings of the pairwise walk: an index loop over 0..len (of either slice, the lengths are
    # equal there) or zip of the two slices; guards are abstracted to tokens
    walks = [('Range::Range{start: 0, end: len(a2)}', 'a1[each(%s)] != a2[each(%s)]'), ('Range::Range{start: 0, end: len(a1)}', 'a1[each(%s)] != a2[each(%s)]'),
             ('zip(a1, a2)', 'each(%s).0 != each(%s).1')]

    def tokens(g, it, ne):
        out = set()
        for x in g:
            if x in ('len(a1) != len(a2)',):
                out.add('LEN_NE')
            elif x in ('len(a1) == len(a2)',):
                out.add('LEN_EQ')
            elif x == 'next(%s) is None' % it:
                out.add('EXHAUSTED')
            elif x == 'next(%s) is Some' % it:
                out.add('ITEM')
            elif x == ne % (it, it):
                out.add('ITEM_NE')
            else:
                out.add('?' + x)
        return frozenset(out)
    exp = sorted([('false', frozenset(['LEN_NE'])), ('true', frozenset(['LEN_EQ', 'EXHAUSTED'])), ('false', frozenset(['LEN_EQ', 'ITEM', 'ITEM_NE']))], key=repr)
    okm = any(sorted([(v, tokens(g, it, ne)) for v, g in rets], key=repr) == exp for it, ne in walks)
    ctx.check('templates', 'matcher:equal-length-and-all-equal', okm, mt, 'match_stack_pattern returns %s' % sorted(rets))
    eq = prog.one('<blockchain::proto::script::custom::StackElement as std::cmp::PartialEq>::eq')
    ctx.touch(eq)
    # truth table over (kind of self, kind of other): one outcome per path on which the result is set
    rets = sorted(set((canon(eq.rvalue_expr(d[3])) if d[0] == 'assign' else canon(eq.call_expr(d[2])), tuple(g))
                      for d in eq.ret_defs() for g in util.path_guard_sets(eq, d[1])))
    exp = sorted([('false', ('a2 is Data', 'self is Op')), ('eq((self as Op).0, (a2 as Op).0)', ('a2 is Op', 'self is Op')),
                  ('false', ('a2 is Op', 'self is Data')), ('true', ('a2 is Data', 'self is Data'))])
    ctx.check('templates', 'element-eq:data-by-kind-ops-by-code', rets == exp, eq, 'StackElement::eq = %s' % rets)
    dt = prog.one('StackElement::data')
    rets = sorted((canon(dt.rvalue_expr(d[3])), tuple(guards_at(dt, d[1]))) for d in dt.ret_defs() if d[0] == 'assign')
    ctx.check('templates', 'data()-returns-the-bytes', rets == sorted([('Result::Err{0: ScriptError::InvalidFormat{}}', ('self is Op',)), ('Result::Ok{0: (self as Data).0}', ('self is Data',))]), dt, '%s' % rets)


def rule_addr(ctx):
    prog = ctx.prog
    cs_ = prog.one('custom::compute_stack')
    ctx.touch(cs_)
    # the P2PK wrapper (hash160 of the key, then the common encoder) may be a helper or written in place: compare
    # after inlining it
    exp = {
        'Pay2PublicKey': ('hash_160_to_address', ['hash(data(a1.elements[0])?)', 'a2']),
        'Pay2PublicKeyHash': ('hash_160_to_address', ['data(a1.elements[2])?', 'a2']),
        'Pay2ScriptHash': ('hash_160_to_address', ['data(a1.elements[1])?', '5']),
    }
    wrappers = set(b.path for b in prog.find('custom::public_key_to_addr'))
    got = {}
    for c in cs_.calls:
        mn = mir.method_name(c.name)
        if mn in ('public_key_to_addr', 'hash_160_to_address'):
            g = guards_at(cs_, c.bb)
            var = [re.match(r'a1\.pattern is (\w+)$', x).group(1) for x in g if re.match(r'a1\.pattern is (\w+)$', x)]
            e = prog.inline_only(cs_.call_expr(c), wrappers) if wrappers else cs_.call_expr(c)
            e = peel(e, calls=False)
            if e[0] == 'call':
                got[var[0] if var else '?'] = (mir.method_name(e[1]), [canon(a) for a in e[2]], c)
    for var, (fn_, args) in exp.items():
        g = got.get(var)
        ctx.check('addr', 'address:%s' % var, g is not None and g[0] == fn_ and g[1] == args, g[2] if g else cs_,
                  '%s address = %s(%s)' % (var, g[0] if g else '?', ', '.join(g[1]) if g else '?'),
                  bad_detail='%s address = %s(%s); expected %s(%s)' % (var, g[0] if g else '?', ', '.join(g[1]) if g else '?', fn_, ', '.join(args)))
    ctx.check('addr', 'no-other-address', set(got) == set(exp), cs_, 'addresses built for %s' % sorted(got))
    # returned aggregates: address Some(..) only in those three arms
    ret = canon(util.ctor_inlined(prog, cs_.ret_expr()))
    # one per arm, whether each arm builds the whole result or only the address that a single construction uses
    n_some = ret.count('Option::Some{0: hash_160_to_address(') + ret.count('Option::Some{0: public_key_to_addr(')
    ctx.check('addr', 'three-address-bearing-outcomes', n_some == 3, cs_, '%d outcomes carry an address' % n_some)
    # eval_from_stack maps errors to address-less results
    es = prog.one('custom::eval_from_stack')
    ctx.touch(es)
    rets = sorted(canon(util.ctor_inlined(prog, es.rvalue_expr(d[3]) if d[0] == 'assign' else es.call_expr(d[2]))) for d in es.ret_defs()
                  if d[0] == 'assign' or not mir.method_name(d[2].name) == 'from_residual')
    # the Ok value passes through; every other result (however the error arms are grouped) has address None
    okr = [r for r in rets if r == 'compute_stack(a1, a2)?']
    other = [r for r in rets if r != 'compute_stack(a1, a2)?']
    ctx.check('addr', 'errors-carry-no-address', len(okr) == 1 and other and all(r.startswith('EvaluatedScript::EvaluatedScript{address: Option::None{}, ') for r in other), es, '%s' % rets)
    # Base58Check
    h = prog.one('custom::hash_160_to_address')
    ctx.touch(h)
    vec = [l for l in range(len(h.locals)) if h.local_ty(l) == 'std::vec::Vec<u8>' and h.defs().get(l) and
           any(d[0] == 'call' and mir.method_name(d[2].name) == 'with_capacity' for d in h.defs()[l])]
    if len(vec) != 1:
        raise Unrecognised('addr', 'buffer of hash_160_to_address not found')
    seq = util.builder_sequence(h, vec[0])
    shape = [(s[1], s[2]) for s in seq]
    buf = 'with_capacity((len(a1) + 5))'
    ctx.check('addr', 'base58check:pieces', shape == [('push', ['a2']), ('extend', ['a1']), ('extend', ['hash(%s)[Range::Range{start: 0, end: 4}]' % buf])], h,
              'buffer = %s' % shape)
    hc = [c for c in h.calls if mir.method_name(c.name) == 'hash']
    ok = len(hc) == 1 and 'sha256d::Hash' in hc[0].rfull and len(seq) == 3 and h.dominates(seq[1][0], hc[0].bb) and h.dominates(hc[0].bb, seq[2][0])
    ctx.check('addr', 'base58check:checksum-over-version+payload', ok, h, 'sha256d computed after version||h and before the checksum is appended')
    enc = [c for c in h.calls if mir.method_name(c.name) == 'encode']
    ctx.check('addr', 'base58check:encode-whole-buffer', len(enc) == 1 and 'base58' in enc[0].name and canon(h.op_expr(enc[0].args[0])) == buf and h.dominates(seq[2][0], enc[0].bb), h,
              'base58::encode(buffer) after the checksum')
    hc = [c for bd in [cs_] + [prog.bodies[w] for w in wrappers] for c in bd.calls if mir.method_name(c.name) == 'hash']
    for w in wrappers:
        ctx.touch(prog.bodies[w])
    ctx.check('addr', 'p2pk:hash160-of-key', len(hc) == 1 and 'hash160::Hash' in hc[0].rfull, hc[0] if hc else cs_, 'the key is hashed with %s' % (hc[0].rfull if hc else '?'))


COINS = {'Bitcoin': 0x00, 'TestNet3': 0x6f, 'Namecoin': 0x34, 'Litecoin': 0x30, 'Dogecoin': 0x1e, 'Myriadcoin': 0x32,
         'Unobtanium': 0x82, 'NoteBlockchain': 0x35}


def rule_table(ctx):
    prog = ctx.prog
    seen = {}
    for b in prog.trait_method_impls('blockchain::parser::types::Coin', 'version_id'):
        coin = b.impl_self.split('::')[-1]
        v = mir.int_value(b.ret_expr())
        seen[coin] = v
        ctx.touch(b)
        ctx.check('table', 'version-byte:%s' % coin, COINS.get(coin) == v, b, '%s version byte 0x%02x' % (coin, v if v is not None else -1),
                  bad_detail='%s version byte is 0x%02x, published value is 0x%02x' % (coin, v if v is not None else -1, COINS.get(coin, -1)))
    ctx.check('table', 'eight-coins', set(seen) == set(COINS), None, 'coins: %s' % sorted(seen))
    # name -> coin mapping of the CLI
    fs = prog.one('<blockchain::parser::types::CoinType as std::str::FromStr>::from_str')
    ctx.touch(fs)
    names = {}
    for cs in fs.calls:
        if mir.method_name(cs.name) == 'from' and cs.gargs and cs.local:
            pass
    # flow of the version byte into the evaluator
    hops = [
        ('<blockchain::parser::types::CoinType as std::convert::From<T>>::from', 'aggr', 'version_id', 'version_id(a1)'),
    ]
    frm = prog.one('<blockchain::parser::types::CoinType as std::convert::From<T>>::from')
    ctx.touch(frm)
    r = canon(frm.ret_expr())
    ctx.check('table', 'flow:CoinType.version_id=coin.version_id()', 'version_id: version_id(a1)' in r, frm, r[:200])
    rb = prog.one('BlockchainRead::read_block')
    ctx.touch(rb)
    c = [cs for cs in rb.calls if mir.method_name(cs.name) == 'read_txs']
    ctx.check('table', 'flow:read_block->read_txs', len(c) == 1 and canon(rb.op_expr(c[0].args[2])) == 'a3.version_id', rb, 'read_txs(.., coin.version_id)')
    rt = prog.one('BlockchainRead::read_txs')
    clo = util.only_closure(prog, rt)
    ctx.touch(clo)
    c = [cs for cs in clo.calls if mir.method_name(cs.name) == 'read_tx']
    mk = [canon(rt.rvalue_expr(st['rv'])) for i in rt.live for st in rt.blocks[i]['stmts'] if st['k'] == 'assign' and st['rv']['k'] == 'aggr' and st['rv']['akind'] == 'closure']
    ok = len(c) == 1 and len(mk) == 1
    if ok:
        # closure upvar order: find which upvar is passed
        a = canon(clo.op_expr(c[0].args[1]))
        ok = re.match(r'^a1\.\d+$', a) is not None or a.startswith('a1.')
    ctx.check('table', 'flow:read_txs->read_tx', ok, rt, 'read_tx(version_id) inside the per-tx closure')
    rtx = prog.one('BlockchainRead::read_tx')
    ctx.touch(rtx)
    agg = [canon(rtx.rvalue_expr(st['rv'])) for i in rtx.live for st in rtx.blocks[i]['stmts'] if st['k'] == 'assign' and st['rv']['k'] == 'aggr' and st['rv'].get('adt', '').endswith('RawTx')]
    ctx.check('table', 'flow:read_tx->RawTx.version_id', len(agg) == 1 and 'version_id: a2}' in agg[0], rtx, 'RawTx{.., version_id: param}')
    fr = prog.one('<blockchain::proto::tx::EvaluatedTx as std::convert::From<blockchain::proto::tx::RawTx>>::from')
    ctx.touch(fr)
    r = canon(fr.ret_expr())
    ctx.check('table', 'flow:RawTx->EvaluatedTx::new', r.endswith('a1.locktime, a1.version_id)'), fr, r)
    nw = prog.one('blockchain::proto::tx::EvaluatedTx::new')
    ncl = util.only_closure(prog, nw)
    ctx.touch(nw, ncl)
    c = [cs for cs in ncl.calls if mir.method_name(cs.name) == 'eval_script']
    mk = [nw.rvalue_expr(st['rv']) for i in nw.live for st in nw.blocks[i]['stmts'] if st['k'] == 'assign' and st['rv']['k'] == 'aggr' and st['rv']['akind'] == 'closure']
    okc = len(c) == 1 and len(mk) == 1 and [canon(v) for _, v in mk[0][3]] == ['a7'] and canon(ncl.op_expr(c[0].args[1])).startswith('a1.')
    ctx.check('table', 'flow:EvaluatedTx::new->eval_script', okc, nw, 'closure captures version_id (a7) and passes it to eval_script')
    es = prog.one('EvaluatedTxOut::eval_script')
    ctx.touch(es)
    r = canon(es.ret_expr())
    ctx.check('table', 'flow:eval_script->eval_from_bytes', r == 'EvaluatedTxOut::EvaluatedTxOut{script: eval_from_bytes(a1.script_pubkey, a2), out: a1}', es, r)


def run(ctx):
    ctx.trusted += ['bitcoin::opcodes classify (PushBytes(n) for 1..=75, NoOp for OP_NOP*)', 'hash160/sha256d/base58 of rust-bitcoin']
    for r, f in (('arms', rule_arms), ('cursor', rule_cursor), ('le', rule_le), ('eof', rule_eof), ('noop', rule_noop),
                 ('templates', rule_templates), ('addr', rule_addr), ('table', rule_table)):
        ctx.guard(r, f)
    ctx.floor('arms', 10)
    ctx.floor('cursor', 14)
    ctx.floor('le', 3)
    ctx.floor('eof', 7)
    ctx.floor('noop', 6)
    ctx.floor('templates', 10)
    ctx.floor('addr', 10)
    ctx.floor('table', 15)
