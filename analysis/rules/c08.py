"""C08 — balances lists each address once with the sum of its unspent outputs."""
import re

import mir
import util
import c07
from mir import canon, peel, Unrecognised

EXPLANATION = (
    "Static decision of the structural clauses of C08: (sibling) Balances::on_block satisfies the same "
    "per-transaction interleaving rule as UnspentCsvDump::on_block with the same two helpers and the same "
    "argument provenance (tx, height parameter, own map), so both callbacks hold the same UTXO map for the "
    "same input (C07 decides the helpers); (agg) on_complete groups self.unspents.values() by &unspent.address "
    "with entry(..).or_insert(0) and `+= unspent.value` in u64, then writes the header `address;balance` and "
    "exactly one row (address, balance) per entry of that map, all writes checked; the map iterated for "
    "output is the one that was filled. Together with C07 this yields balances = per-address aggregation of "
    "the unspent dump, structurally.")
RULE = ("instances = helper call sites, the grouping store, the accumulator type, header/row templates and "
        "their argument provenance; non-trivial = provenance/width obligation")

CB = 'callbacks::balances::Balances'


def rule_sibling(ctx):
    c07.rule_order(ctx, cb=CB, rule='sibling')
    prog = ctx.prog
    a = prog.one('<%s as callbacks::Callback>::on_block' % CB)
    b = prog.one('<%s as callbacks::Callback>::on_block' % c07.CB)
    ha = [(h[0], h[1], h[2]) for h in c07.helper_calls(a)]
    hb = [(h[0], h[1], h[2]) for h in c07.helper_calls(b)]
    ctx.check('sibling', 'same-helper-calls-as-unspentcsvdump', sorted(ha) == sorted(hb), a, 'balances: %s' % ha,
              bad_detail='balances applies %s, unspentcsvdump applies %s' % (ha, hb))
    ta = dict(prog.adt_fields(CB) or []).get('unspents')
    tb = dict(prog.adt_fields(c07.CB) or []).get('unspents')
    ctx.check('sibling', 'same-map-type', ta == tb and ta is not None, a, 'unspents: %s' % ta)
    # map mutated only by the helpers
    muts = []
    for bd in prog.bodies.values():
        if bd.impl_self != CB:
            continue
        for cs in bd.calls:
            for x in cs.args:
                if x['k'] in ('copy', 'move') and x['place']['ty'].startswith('&mut') and 'HashMap<std::vec::Vec<u8>' in x['place']['ty']:
                    if canon(bd.op_expr(x)) == 'self.unspents':
                        muts.append((bd.path.split('::')[-1], mir.method_name(cs.name)))
    ctx.check('sibling', 'map-mutated-only-by-helpers', sorted(muts) == [('on_block', 'insert_unspents'), ('on_block', 'remove_unspents')], None, '%s' % muts)


def rule_agg(ctx):
    prog = ctx.prog
    oc = prog.one('<%s as callbacks::Callback>::on_complete' % CB)
    ctx.touch(oc)
    u = 'each(values(self.unspents))'
    slot = 'or_insert(entry(new(), %s.address), 0)' % u
    st = [(canon(oc.place_expr(p)), canon(oc.rvalue_expr(rv)), oc.loop_depth(bb), bb, p) for bb, idx, p, rv, s in oc.stores() if rv is not None and canon(oc.place_expr(p)) != 'self.end_height']
    ctx.check('agg', 'sum-by-address', len(st) == 1 and st[0][0] == slot and st[0][1] == '(%s + %s.value)' % (slot, u) and st[0][2] == 1, (oc, st[0][3]) if st else oc,
              'grouping store: %s' % [(s[0], s[1]) for s in st],
              bad_detail='grouping store %s; expected *entry(address).or_insert(0) += unspent.value per unspent' % [(s[0], s[1]) for s in st])
    if st:
        ctx.check('agg', 'u64-accumulator', st[0][4]['ty'] == 'u64', (oc, st[0][3]), 'balance accumulator type %s' % st[0][4]['ty'])
    ent = [c for c in oc.calls if mir.method_name(c.name) == 'entry']
    ctx.check('agg', 'keyed-by-address-str', len(ent) == 1 and 'HashMap::<&str, u64>::entry' in ent[0].rfull, oc, 'balances: %s' % (ent[0].rfull if ent else '?'))
    vals = [c for c in oc.calls if mir.method_name(c.name) == 'values']
    ctx.check('agg', 'over-all-unspents', len(vals) == 1 and canon(oc.op_expr(vals[0].args[0])) == 'self.unspents', oc, 'for unspent in self.unspents.values()')
    fs = mir.fmt_sites(oc)
    head = util.header_writes(prog, oc, 'address;balance\n')
    # data rows: the `{};{}` sites inside a loop (a shared write_row helper may also produce the header outside it)
    rows = [f for f in fs if len(f.args) == 2 and f.literal_skeleton == '{};{}\n' and oc.loop_depth(f.cs.bb) >= 1]
    ctx.check('agg', 'header', len(head) == 1, oc, 'header address;balance')
    if rows:
        f = rows[0]
        a = [canon(x[3]) for x in f.args]
        ctx.check('agg', 'row=(address,balance)', a == ['each(new()).0', 'each(new()).1'] and all(x[1] == 'Display' and x[2]['default'] for x in f.args), f.cs, 'row args %s' % a)
        ctx.check('agg', 'one-row-per-address', oc.loop_depth(f.cs.bb) == 1, f.cs, 'row inside the loop over the balances map')
        # the map iterated is the one filled (same HashMap::new site)
        it = [c for c in oc.calls if (mir.method_name(c.name) == 'iter' and 'HashMap' in c.name) or
              (mir.method_name(c.name) == 'into_iter' and c.gargs and re.match(r'^&std::collections::HashMap<', c.gargs[0]))]
        filled = peel(oc.op_expr(ent[0].args[0])) if ent else None
        iterd = peel(oc.op_expr(it[0].args[0])) if it else None
        ctx.check('agg', 'iterates-the-filled-map', filled is not None and filled == iterd, f.cs, 'rows come from the map that was filled')
        # exactly one row per address that owns an unspent output: nothing removes entries from the grouped map
        # and no data condition guards the row
        mut = [c for c in oc.calls if c.args and c.args[0].get('k') in ('move', 'copy') and c.args[0]['place'].get('ty', '').startswith('&mut') and
               filled is not None and 'HashMap' in c.name and peel(oc.op_expr(c.args[0])) == filled and mir.method_name(c.name) not in ('entry', 'reserve', 'get_mut', 'iter_mut', 'values_mut')]
        ctx.check('agg', 'no-address-dropped', not mut, mut[0] if mut else oc, 'the grouped map is only filled, never pruned',
                  bad_detail='%s on the grouped map between aggregation and dump: an address that owns unspent outputs can lose its row' % [mir.method_name(c.name) for c in mut])
        g = [x for x in util.guards_at(oc, f.cs.bb) if 'next(' not in x and not util.is_ok_guard(x) and 'Level' not in x]
        ctx.check('agg', 'row-unconditional', not g, f.cs, 'every entry of the grouped map is written', bad_detail='row written only under %s' % g)
    else:
        ctx.violation('agg', 'row-template-missing', oc, 'no `{};{}\\n` row template')
    wr = [c for c in oc.calls if mir.method_name(c.name) == 'write_all']
    ctx.check('agg', 'two-write-sites', len(wr) == 2 and all(canon(oc.op_expr(c.args[0])) == 'self.writer' for c in wr), oc, '%d write_all call(s)' % len(wr))
    for c in wr:
        ctx.check('agg', 'write-checked', util.result_is_consumed(oc, c), c, 'write_all result checked')
    # grouping loop completes before rows are written
    if st and rows:
        ctx.check('agg', 'group-before-rows', rows[0].cs.bb in oc.reach_from(st[0][3]) and st[0][3] not in oc.reach_from(rows[0].cs.bb), oc, 'all unspents are grouped before the first row is written')


def run(ctx):
    ctx.trusted += ['std HashMap entry API', 'C07 (helpers, key layout, filter)']
    ctx.guard('sibling', rule_sibling)
    ctx.guard('agg', rule_agg)
    ctx.floor('sibling', 10)
    ctx.floor('agg', 13)
