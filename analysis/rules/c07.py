"""C07 — unspentcsvdump lists exactly the unspent, address-bearing outputs of the range."""
import re

import mir
import util
from mir import canon, peel, Unrecognised

EXPLANATION = (
    "Static decision of the structural clauses of C07: (order) on_block is one forward loop over block.txs whose "
    "body applies both helpers (remove spent, insert created) to the loop's tx and the callback's own map, so "
    "outputs of tx i are inserted before inputs of any tx j>i are removed (same-block spends); the order of "
    "the two helpers within one tx is deliberately not constrained; (key) one key layout: insert key = "
    "TxOutpoint::new(tx.hash, enumerate-index as u32).to_bytes(), remove key = input.outpoint.to_bytes(), both "
    "resolve to the same ToRaw impl whose serializer term is txid(32) || index u32le, and the dump decodes "
    "key[0..32] as the txid and key[32..] as u32le; (filter) insertion only under `address is Some`, stored "
    "value = (on_block height, out.value, that address); (inputs) every input is visited and the removal "
    "result is ignored; (dump) on_complete writes the header then one row per map entry with the five columns "
    "from the key and value, all writes checked; (owner) the map field is mutated only by the two helpers.")
RULE = ("instances = helper call sites with loop context and argument provenance, key constructions, serializer "
        "pieces, dump columns, mutable uses of the map; non-trivial = provenance/loop/guard obligation")

CB = 'callbacks::unspentcsvdump::UnspentCsvDump'
TX = 'each(a2.txs)'


def helper_calls(body):
    out = []
    for cs in body.calls:
        m = mir.method_name(cs.name)
        if m in ('remove_unspents', 'insert_unspents') and cs.local:
            out.append((m, [canon(a) for a in body.arg_exprs(cs)], body.loop_depth(cs.bb), cs))
    return out


def rule_order(ctx, cb=CB, rule='order'):
    prog = ctx.prog
    ob = prog.one('<%s as callbacks::Callback>::on_block' % cb)
    ctx.touch(ob)
    hc = helper_calls(ob)
    rm = [h for h in hc if h[0] == 'remove_unspents']
    ins = [h for h in hc if h[0] == 'insert_unspents']
    ctx.check(rule, 'one-remove-one-insert', len(rm) == 1 and len(ins) == 1, ob, '%d remove / %d insert helper call(s)' % (len(rm), len(ins)))
    if len(rm) != 1 or len(ins) != 1:
        return
    rm, ins = rm[0], ins[0]
    lr = ob.innermost_loop(rm[3].bb)
    li = ob.innermost_loop(ins[3].bb)
    same = lr is not None and li is not None and lr[0] == li[0] and rm[2] == 1 and ins[2] == 1
    ctx.check(rule, 'per-tx-interleaving', same, ob,
              'both helpers run inside the same single loop over the block\'s transactions',
              bad_detail='spends and creations are not interleaved per transaction (remove at loop depth %d, insert at depth %d, same loop: %s): '
              'an output spent later in the same block is either never removed or removed before it is inserted' % (rm[2], ins[2], bool(lr and li and lr[0] == li[0])))
    ctx.check(rule, 'remove-args', rm[1] == [TX, 'self.unspents'], rm[3], 'remove_unspents(%s)' % ', '.join(rm[1]))
    ctx.check(rule, 'insert-args', ins[1] == [TX, 'a3', 'self.unspents'], ins[3], 'insert_unspents(%s)' % ', '.join(ins[1]))
    ctx.check(rule, 'single-loop', len(ob.loops()) == 1, ob, '%d loop(s) in on_block' % len(ob.loops()))
    bad = [c for c in ob.calls if mir.method_name(c.name) in ('rev', 'skip', 'take', 'filter', 'step_by', 'par_iter', 'into_par_iter')]
    ctx.check(rule, 'forward-complete-iteration', not bad, ob, 'adaptors on the tx loop: %s' % [mir.method_name(c.name) for c in bad])
    # the helpers are unconditional inside the loop body
    for h in (rm, ins):
        g = [x for x in util.guards_at(ob, h[3].bb) if 'next(' not in x and not util.is_ok_guard(x)]
        ctx.check(rule, 'unconditional:%s' % h[0], not g, h[3], '%s runs for every tx' % h[0], bad_detail='%s is guarded by %s' % (h[0], g))


def rule_key(ctx):
    prog = ctx.prog
    ins = prog.one('callbacks::common::insert_unspents')
    rem = prog.one('callbacks::common::remove_unspents')
    ctx.touch(ins, rem)
    ic = [c for c in ins.calls if mir.method_name(c.name) in ('insert', 'entry') and 'HashMap' in c.name]
    rc = [c for c in rem.calls if mir.method_name(c.name) == 'remove']
    if len(ic) != 1 or len(rc) != 1:
        raise Unrecognised('key', 'map insert/remove call not found in the helpers')
    out = 'each(enumerate(a1.value.outputs))'
    ik = canon(ins.op_expr(ic[0].args[1]))
    rk = canon(rem.op_expr(rc[0].args[1]))
    ctx.check('key', 'insert-key=outpoint(txid,index)', ik == 'to_bytes(new(a1.hash, (%s.0 as u32)))' % out, ic[0], 'insert key = %s' % ik)
    ctx.check('key', 'remove-key=input.outpoint', rk == 'to_bytes(each(a1.value.inputs).outpoint)', rc[0], 'remove key = %s' % rk)
    # the serializer calls, in the helper itself or in a closure it creates (a lazily mapped key iterator)
    tb_i = [c for bd in [ins] + util.closures_created(prog, ins) for c in bd.calls if mir.method_name(c.name) == 'to_bytes']
    tb_r = [c for bd in [rem] + util.closures_created(prog, rem) for c in bd.calls if mir.method_name(c.name) == 'to_bytes']
    same = len(tb_i) == 1 and len(tb_r) == 1 and tb_i[0].name == tb_r[0].name and 'TxOutpoint' in tb_i[0].name
    ctx.check('key', 'same-serializer', same, tb_i[0] if tb_i else ins, 'both keys use %s' % (tb_i[0].name if tb_i else '?'))
    nw = [c for c in ins.calls if mir.method_name(c.name) == 'new' and 'TxOutpoint' in c.name]
    ctx.check('key', 'outpoint-ctor', len(nw) == 1, ins, 'TxOutpoint::new')
    tn = prog.one('TxOutpoint::new')
    ctx.check('key', 'ctor-field-order', canon(tn.ret_expr()) == 'TxOutpoint::TxOutpoint{txid: a1, index: a2}', tn, canon(tn.ret_expr()))
    ser = prog.one('<blockchain::proto::tx::TxOutpoint as blockchain::proto::ToRaw>::to_bytes')
    ctx.touch(ser, tn)
    bp = util.byte_pieces(ser)
    shape = bp[0] if bp and bp[1] else []
    ctx.check('key', 'serializer=txid||index-le', shape == [('extend', ['self.txid'], 0), ('extend', ['to_le_bytes(self.index)'], 0)], ser, 'TxOutpoint::to_bytes = %s' % shape)
    ctx.check('key', 'index-is-u32', dict(prog.adt_fields('blockchain::proto::tx::TxOutpoint') or []).get('index') == 'u32', ser, 'index: u32 (4 bytes)')
    # enumerate index over a forward iteration of all outputs
    bad = [c for c in ins.calls if mir.method_name(c.name) in ('rev', 'skip', 'take', 'filter', 'step_by')]
    ctx.check('key', 'index=position-in-forward-iteration', not bad and any(mir.method_name(c.name) == 'enumerate' for c in ins.calls), ins, 'outputs.iter().enumerate()')
    # dump decoding
    oc = prog.one('<%s as callbacks::Callback>::on_complete' % CB)
    ctx.touch(oc)
    k = 'each(self.unspents).0'
    fs = [f for f in mir.fmt_sites(oc) if len(f.args) == 5]
    if len(fs) != 1:
        raise Unrecognised('key', 'row template of the unspent dump not found')
    a = [canon(x[3]) for x in fs[0].args]
    ctx.check('key', 'dump-txid=key[0..32]', a[0] == 'from_slice(%s[Range::Range{start: 0, end: 32}])?' % k, fs[0].cs, 'txid column = %s' % a[0])
    ctx.check('key', 'dump-index=u32le(key[32..])', a[1] == 'read_u32(%s[RangeFrom::RangeFrom{start: 32}])?' % k, fs[0].cs, 'index column = %s' % a[1])
    ru = [c for c in oc.calls if mir.method_name(c.name) == 'read_u32']
    ctx.check('key', 'dump-index-little-endian', len(ru) == 1 and any('LittleEndian' in g for g in ru[0].gargs), oc, 'read_u32::<%s>' % (ru[0].gargs if ru else '?'))
    fsl = [c for c in oc.calls if mir.method_name(c.name) == 'from_slice']
    ctx.check('key', 'dump-txid-type', len(fsl) == 1 and 'sha256d::Hash' in fsl[0].rfull, oc, 'sha256d::Hash::from_slice')


def rule_filter(ctx):
    prog = ctx.prog
    ins = prog.one('callbacks::common::insert_unspents')
    mut_calls = [c for c in ins.calls if c.args and c.args[0]['k'] in ('copy', 'move') and c.args[0]['place']['ty'].startswith('&mut') and
                 'HashMap' in c.args[0]['place']['ty'] and canon(ins.op_expr(c.args[0])) == 'a3']
    kinds = sorted(mir.method_name(c.name) for c in mut_calls)
    ctx.check('filter', 'later-output-replaces-earlier', kinds == ['insert'], mut_calls[0] if mut_calls else ins,
              'the map is updated with HashMap::insert (an equal outpoint key is overwritten)',
              bad_detail='the map is updated through %s: with the entry/or_insert API (or any non-overwriting update) an earlier output with the same txid and index is kept instead of being replaced by the later one' % kinds)
    ic = [c for c in ins.calls if mir.method_name(c.name) == 'insert']
    if not ic:
        return
    out = 'each(enumerate(a1.value.outputs))'
    g = [x for x in util.guards_at(ins, ic[0].bb) if 'next(' not in x]
    ctx.check('filter', 'only-address-bearing', g == ['%s.1.script.address is Some' % out], ic[0], 'insert under %s' % g,
              bad_detail='insertion guarded by %s; required exactly: the output\'s script.address is Some' % g)
    v = canon(ins.op_expr(ic[0].args[2]))
    exp = 'UnspentValue::UnspentValue{block_height: a2, value: %s.1.out.value, address: %s.1.script.address?}' % (out, out)
    ctx.check('filter', 'stored-value', v == exp, ic[0], 'stored %s' % v, bad_detail='stored %s, expected %s' % (v, exp))
    ctx.check('filter', 'into-the-callers-map', canon(ins.op_expr(ic[0].args[0])) == 'a3', ic[0], 'insert into the map parameter')
    ctx.check('filter', 'per-output', ins.loop_depth(ic[0].bb) == 1 and len(ins.loops()) == 1, ins, 'one insertion attempt per output')


def rule_inputs(ctx):
    prog = ctx.prog
    rem = prog.one('callbacks::common::remove_unspents')
    rc = [c for c in rem.calls if mir.method_name(c.name) == 'remove']
    g = [x for x in util.guards_at(rem, rc[0].bb) if 'next(' not in x]
    ctx.check('inputs', 'every-input-unconditionally', not g and rem.loop_depth(rc[0].bb) == 1 and len(rem.loops()) == 1, rc[0], 'remove for every input (guards: %s)' % g)
    ctx.check('inputs', 'from-the-callers-map', canon(rem.op_expr(rc[0].args[0])) == 'a2', rc[0], 'remove from the map parameter')
    bad = [c for c in rem.calls if mir.method_name(c.name) in ('rev', 'skip', 'take', 'filter', 'step_by')]
    ctx.check('inputs', 'all-inputs', not bad, rem, 'no adaptor skips inputs')
    # result of remove ignored: no branch depends on it
    used = rem.real_uses(rc[0].dest['l']) if not rc[0].dest['p'] else [1]
    sw = [u for u in used if u[2] in ('switch', 'discr')] if used and used != [1] else []
    ctx.check('inputs', 'absent-key-tolerated', not sw, rc[0], 'the Option returned by remove is not inspected (spends of unknown outpoints are ignored)')


def rule_dump(ctx, cb=CB):
    prog = ctx.prog
    oc = prog.one('<%s as callbacks::Callback>::on_complete' % cb)
    wr = [c for c in oc.calls if mir.method_name(c.name) == 'write_all']
    fs = mir.fmt_sites(oc)
    head = util.header_writes(prog, oc, 'txid;indexOut;height;value;address\n')
    ctx.check('dump', 'header', len(head) == 1, oc, 'header line txid;indexOut;height;value;address')
    rows = [f for f in fs if len(f.args) == 5]
    k = 'each(self.unspents)'
    if rows:
        f = rows[0]
        a = [canon(x[3]) for x in f.args]
        ctx.check('dump', 'row-template', f.literal_skeleton == '{};{};{};{};{}\n' and all(x[1] == 'Display' and x[2]['default'] for x in f.args), f.cs, 'row %r' % f.literal_skeleton)
        ctx.check('dump', 'columns-height-value-address', a[2:] == ['%s.1.block_height' % k, '%s.1.value' % k, '%s.1.address' % k], f.cs, 'columns 3-5 = %s' % a[2:])
        ctx.check('dump', 'one-row-per-entry', oc.loop_depth(f.cs.bb) == 1, f.cs, 'row written inside the loop over the map')
    ctx.check('dump', 'two-write-sites', len(wr) == 2 and all(canon(oc.op_expr(c.args[0])) == 'self.writer' for c in wr), oc, '%d write_all call(s) on self.writer' % len(wr))
    if len(wr) == 2 and head and rows:
        hw = [c for c in wr if oc.loop_depth(c.bb) == 0]
        rw = [c for c in wr if oc.loop_depth(c.bb) == 1]
        ctx.check('dump', 'header-before-rows', len(hw) == 1 and len(rw) == 1 and oc.dominates(hw[0].bb, rw[0].bb), oc, 'header write dominates the row loop')
        for c in wr:
            ctx.check('dump', 'write-checked', util.result_is_consumed(oc, c), c, 'write_all result is `?`-checked')
        # the row loop iterates the whole map
        doms = [canon(x) for x in util.loop_bounds(oc, rw[0].bb) if x is not None] if rw else []
        bad = [c for c in oc.calls if mir.method_name(c.name) in ('skip', 'take', 'filter', 'step_by', 'take_while', 'skip_while') and oc.loop_depth(c.bb) == 0]
        ctx.check('dump', 'iterates-whole-map', doms == ['self.unspents'] and not bad, oc, 'the row loop runs over %s' % doms)


def rule_owner(ctx):
    prog = ctx.prog
    muts = []
    for b in prog.bodies.values():
        if b.impl_self != CB:
            continue
        for cs in b.calls:
            for a in cs.args:
                if a['k'] in ('copy', 'move') and a['place']['ty'].startswith('&mut') and 'HashMap' in a['place']['ty']:
                    if canon(b.op_expr(a)) == 'self.unspents':
                        muts.append((b.path.split('::')[-1], mir.method_name(cs.name)))
    ctx.check('owner', 'map-mutated-only-by-helpers', sorted(muts) == [('on_block', 'insert_unspents'), ('on_block', 'remove_unspents')], None, 'mutable uses of self.unspents: %s' % muts)
    st = [(b.path, ch) for b in prog.bodies.values() if b.impl_self == CB for bb, ch, val, s in util.self_field_stores(b) if ch[0] == 'unspents']
    ctx.check('owner', 'map-never-replaced', not st, None, 'stores to self.unspents: %s' % st)
    # helpers mutate the map only through insert/remove
    for hn in ('insert_unspents', 'remove_unspents'):
        h = prog.one('callbacks::common::' + hn)
        ms = sorted(mir.method_name(c.name) for c in h.calls for a in c.args[:1] if a['k'] in ('copy', 'move') and a['place']['ty'].startswith('&mut') and 'HashMap' in a['place']['ty'])
        ctx.check('owner', 'helper-effects:%s' % hn, ms == (['insert'] if hn == 'insert_unspents' else ['remove']), h, '%s mutates the map via %s' % (hn, ms))


def run(ctx):
    ctx.trusted += ['std HashMap insert/remove semantics (insert replaces an equal key)', 'C01.ser: tx.hash is the txid', 'C02: chain order of on_block']
    ctx.guard('order', rule_order)
    ctx.guard('key', rule_key)
    ctx.guard('filter', rule_filter)
    ctx.guard('inputs', rule_inputs)
    ctx.guard('dump', rule_dump)
    ctx.guard('owner', rule_owner)
    ctx.floor('order', 8)
    ctx.floor('key', 12)
    ctx.floor('filter', 5)
    ctx.floor('inputs', 4)
    ctx.floor('dump', 9)
    ctx.floor('owner', 4)
