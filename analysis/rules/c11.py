"""C11 — XOR-obfuscated block files yield the same result as plaintext ones."""
import re

import mir
import util
from mir import canon, peel, Unrecognised

EXPLANATION = (
    "Static decision of the position bookkeeping of XorReader and of its wiring: (seek) seek() stores the "
    "position returned by the inner seek (the resulting absolute position, not the requested one) into the "
    "position field and returns it, only on the success edge; (read) on every Ok path with a key, byte i of "
    "the n bytes just read is XOR-ed with key[(i + position) % key.len()] where position is the value before "
    "this read, the loop is 0..n over the inner read's n, the position is advanced by exactly n after the "
    "loop and on the key-less path too, and the returned count is n; (once) the blk reader type contains "
    "XorReader exactly once, it is constructed at position 0 only on a freshly opened file, the key field is "
    "never written after construction, every BlkFile gets a clone of the one key read whole from "
    "<dir>/xor.dat, and the inner reader is touched only by read/seek. These make the key byte a function of "
    "the absolute file offset for every seek pattern, key length and buffer boundary.")
RULE = ("instances = stores to the position field, the XOR store with its index expression, constructor and "
        "wiring sites; non-trivial = provenance/order obligation")

RD = '<blockchain::parser::reader::XorReader<R> as std::io::Read>::read'
SK = '<blockchain::parser::reader::XorReader<R> as std::io::Seek>::seek'


def rule_seek(ctx):
    prog = ctx.prog
    s = prog.one(SK)
    ctx.touch(s)
    st = [(ch, canon(val), util.guards_at(s, bb), bb) for bb, ch, val, x in util.self_field_stores(s)]
    ctx.check('seek', 'position:=result-of-inner-seek', len(st) == 1 and st[0][0] == ['absolute_pos'] and st[0][1] == 'seek(self.reader, a2)?', s,
              'stores: %s' % [(x[0], x[1]) for x in st],
              bad_detail='seek stores %s; it must store the position returned by the inner reader' % [(x[0], x[1]) for x in st])
    if st:
        ctx.check('seek', 'only-on-success', st[0][2] == ['seek(self.reader, a2) is Ok'], (s, st[0][3]), 'stored on the Ok edge')
    rets = [canon(s.rvalue_expr(d[3])) for d in s.ret_defs() if d[0] == 'assign']
    okr = [x for x in rets if x.startswith('Result::Ok')]
    err = [x for x in rets if not x.startswith('Result::Ok')]
    ctx.check('seek', 'returns-new-position', okr in (['Result::Ok{0: self.absolute_pos}'], ['Result::Ok{0: seek(self.reader, a2)?}']) and
              all(x == 'Result::Err{0: (seek(self.reader, a2) as Err).0}' for x in err), s, 'returns %s' % rets)
    inner = [c for c in s.calls if mir.method_name(c.name) == 'seek']
    ctx.check('seek', 'forwards-request-unchanged', len(inner) == 1 and [canon(a) for a in s.arg_exprs(inner[0])] == ['self.reader', 'a2'], s, 'inner.seek(pos)')


def rule_read(ctx):
    prog = ctx.prog
    r = prog.one(RD)
    ctx.touch(r)
    n = 'read(self.reader, a2)?'
    inner = [c for c in r.calls if mir.method_name(c.name) == 'read']
    ctx.check('read', 'inner-read-into-same-buffer', len(inner) == 1 and [canon(a) for a in r.arg_exprs(inner[0])] == ['self.reader', 'a2'], r, 'n = inner.read(buf)?')
    # stores through the buffer
    xs = []
    pos_st = []
    for bb, idx, place, rv, st in r.stores():
        pe = canon(r.place_expr(place))
        ve = canon(r.rvalue_expr(rv)) if rv is not None else None
        if pe.startswith('a2[') or pe.startswith('each(take(enumerate(a2), '):
            xs.append((pe, ve, bb))
        elif pe == 'self.absolute_pos':
            pos_st.append((ve, bb))
        else:
            ctx.violation('read', 'unexpected-store:%s' % pe, (r, bb), '%s = %s' % (pe, ve))
    key = 'self.xor_key?'
    # two spellings of "for each of the first n bytes, with its index": an index loop 0..n, or
    # buf.iter_mut().enumerate().take(n)
    forms = [('a2[%s]' % ('each(Range::Range{start: 0, end: %s})' % n), 'each(Range::Range{start: 0, end: %s})' % n),
             ('each(take(enumerate(a2), %s)).1' % n, 'each(take(enumerate(a2), %s)).0' % n)]
    okx = False
    for place, i in forms:
        want_idx = '((((%s as u64) + self.absolute_pos) %% (len(%s) as u64)) as usize)' % (i, key)
        want = '(%s ^ %s[%s])' % (place, key, want_idx)
        alt = '(%s ^ %s[((((self.absolute_pos + (%s as u64)) %% (len(%s) as u64)) as usize)])' % (place, key, i, key)
        if len(xs) == 1 and xs[0][0] == place and xs[0][1] in (want, alt):
            okx = True
    ctx.check('read', 'xor-with-key[(i+pos)%len]', okx, (r, xs[0][2]) if xs else r,
              'buf[i] ^= %s' % (xs[0][1] if xs else '?'),
              bad_detail='buf[i] is combined as %s; required key[(i + absolute_pos) %% key.len()] over i in 0..n' % (xs[0][1] if xs else '?'))
    if xs:
        g = util.guards_at(r, xs[0][2])
        ctx.check('read', 'xor-only-with-key', any(x.startswith('self.xor_key is Some') for x in g), (r, xs[0][2]), 'XOR loop under `xor_key is Some`')
    # position update: += n, after the loop (not inside), on both key/no-key paths
    ctx.check('read', 'position+=n', len(pos_st) == 1 and pos_st[0][0] == '(self.absolute_pos + (%s as u64))' % n, r, 'position store: %s' % [p[0] for p in pos_st])
    if pos_st and xs:
        pb = pos_st[0][1]
        ctx.check('read', 'advance-after-use', r.loop_depth(pb) == 0 and pb in r.reach_from(xs[0][2]) and xs[0][2] not in r.reach_from(pb), (r, pb),
                  'the position is advanced after the XOR loop, never before a key index is computed')
        okb = [d[1] for d in r.ret_defs() if d[0] == 'assign' and canon(r.rvalue_expr(d[3])).startswith('Result::Ok')]
        allp = bool(okb) and all(ob not in r.reach_from(inner[0].target, avoid=[pb]) or ob == pb for ob in okb)
        ctx.check('read', 'advance-on-every-ok-path', allp, (r, pb), 'every Ok return passes the position update')
    rets = [canon(r.rvalue_expr(d[3])) for d in r.ret_defs() if d[0] == 'assign']
    ctx.check('read', 'returns-n', rets == ['Result::Ok{0: %s}' % n], r, 'returns %s' % rets)


def rule_once(ctx):
    prog = ctx.prog
    blk = dict(prog.adt_fields('blockchain::parser::blkfile::BlkFile') or [])
    rt = blk.get('reader', '')
    ctx.check('once', 'one-xor-layer', rt.count('XorReader<') == 1, None, 'BlkFile.reader: %s' % rt)
    nw = prog.one('XorReader::<R>::new')
    ctx.touch(nw)
    ctx.check('once', 'starts-at-position-0', canon(nw.ret_expr()) == 'XorReader::XorReader{reader: a1, xor_key: a2, absolute_pos: 0}', nw, canon(nw.ret_expr()))
    callers = prog.callers_of(nw)
    op = prog.one('BlkFile::open')
    ctx.touch(op)
    okc = len(callers) == 1 and callers[0].body is op
    ctx.check('once', 'constructed-only-in-open', okc, nw, 'XorReader::new callers: %s' % [c.body.path for c in callers])
    if okc:
        a = [canon(x) for x in op.arg_exprs(callers[0])]
        ctx.check('once', 'wraps-fresh-file-with-this-files-key', a == ['with_capacity(32768, open(self.path)?)', 'self.xor_key'] or (a[0].startswith('with_capacity(') and a[0].endswith('open(self.path)?)') and a[1] == 'self.xor_key'), callers[0],
                  'XorReader::new(%s)' % ', '.join(a))
    # key and inner reader are never written after construction
    wr = []
    for b in prog.bodies.values():
        if b.impl_self and 'XorReader' in b.impl_self:
            for bb, ch, val, st in util.self_field_stores(b):
                if ch[0] in ('xor_key', 'reader'):
                    wr.append((b.path, ch[0]))
    ctx.check('once', 'key-immutable', not wr, None, 'stores to XorReader.xor_key/reader: %s' % wr)
    wr2 = []
    for b in prog.bodies.values():
        if b.impl_self and b.impl_self.endswith('BlkFile'):
            for bb, ch, val, st in util.self_field_stores(b):
                if ch[0] == 'xor_key':
                    wr2.append(b.path)
    ctx.check('once', 'blkfile-key-immutable', not wr2, None, 'stores to BlkFile.xor_key: %s' % wr2)
    # inner reader touched only by read/seek
    touch = []
    for b in prog.bodies.values():
        if b.impl_self and 'XorReader' in b.impl_self:
            for cs in b.calls:
                if cs.args and canon(b.op_expr(cs.args[0])) == 'self.reader':
                    touch.append((b.path.split('::')[-1], mir.method_name(cs.name)))
    ctx.check('once', 'inner-reader-only-read/seek', sorted(touch) == [('read', 'read'), ('seek', 'seek')], None, 'uses of the inner reader: %s' % touch)
    # the key: read whole from <dir>/xor.dat, cloned into every BlkFile
    fp = prog.one('BlkFile::from_path')
    ctx.touch(fp)
    k = [c for c in fp.calls if mir.method_name(c.name) == 'read_xor_key']
    ctx.check('once', 'key-from-dir/xor.dat', len(k) == 1 and canon(fp.op_expr(k[0].args[0])) == 'join(a1, "xor.dat")', fp, 'read_xor_key(path.join("xor.dat"))')
    nb = [c for c in fp.calls if mir.method_name(c.name) == 'new' and 'BlkFile' in c.name]
    ctx.check('once', 'every-file-gets-the-key', len(nb) == 1 and canon(fp.op_expr(nb[0].args[1])) == 'read_xor_key(join(a1, "xor.dat"))?', fp, 'BlkFile::new(path, xor_key.clone())')
    rk = prog.one('BlkFile::read_xor_key')
    ctx.touch(rk)
    rets = {}
    for d in rk.ret_defs():
        if d[0] == 'assign':
            rv = d[3]
            alts = None
            if rv.get('k') == 'aggr' and rv.get('variant') == 'Ok' and len(rv.get('ops', [])) == 1:
                # `Ok(key)` where key was chosen earlier: one alternative per definition of key
                alts = util.value_alternatives(rk, rv['ops'][0])
            if alts and len(alts) > 1:
                for e, bb in alts:
                    rets['Result::Ok{0: %s}' % canon(e)] = util.guards_at(rk, bb)
            else:
                rets[canon(rk.rvalue_expr(rv))] = util.guards_at(rk, d[1])
    buf = 'from_elem(0, (len(metadata(a1)?) as usize))'
    ctx.check('once', 'key=whole-file', 'Result::Ok{0: Option::Some{0: %s}}' % buf in rets, rk, 'key buffer sized metadata.len()')
    rx = [c for c in rk.calls if mir.method_name(c.name) == 'read_exact']
    ctx.check('once', 'key-read_exact', len(rx) == 1 and [canon(a) for a in rk.arg_exprs(rx[0])] == ['open(a1)?', buf], rk, 'read_exact(whole buffer)')
    ctx.check('once', 'no-key-when-absent', rets.get('Result::Ok{0: Option::None{}}') == ['!exists(a1)'], rk, 'None iff xor.dat does not exist')
    # BlkFile::new stores the key parameter
    bn = prog.one('BlkFile::new')
    ctx.check('once', 'blkfile-stores-key', 'xor_key: a2' in canon(bn.ret_expr()), bn, canon(bn.ret_expr()))


def run(ctx):
    ctx.trusted += ['seek_bufread::BufReader: seek(SeekFrom::Start(p)) returns the absolute logical position p on both the in-buffer and the refill path',
                    'std::io::Read::read contract (n bytes written to buf[0..n])']
    for rn, f in (('seek', rule_seek), ('read', rule_read), ('once', rule_once)):
        ctx.guard(rn, f)
    ctx.floor('seek', 4)
    ctx.floor('read', 7)
    ctx.floor('once', 13)
