"""C15 — every simplestats figure equals an independent recomputation over the range."""
import re

import mir
import util
from mir import canon, peel, Unrecognised

EXPLANATION = (
    "Static decision of the structural clauses of C15 on the MIR of the simplestats callback, utils::get_mean, "
    "get_base_reward and is_coinbase: (width) every reduction that feeds a mean or a total accumulates in at "
    "least 64 bits (generic argument of Iterator::sum/product/fold, type of every `+=` target); (levels) each "
    "accumulator field is updated exactly once at the right loop level from the right on-disk field, found as "
    "a canonical provenance expression of every store to a field of the callback; (fee) coinbase guard, "
    "first-output value minus get_base_reward(height) floored at zero, reward = 50e8 >> (height/210000); "
    "(max) both maxima updated only under a strict `new > old` with (value, height, txid) of the current tx, "
    "size = len of the witness-free serialisation; (time) clamped difference, recorded only when a previous "
    "timestamp exists, previous timestamp updated every block; (types) OP_RETURN payload stripped before "
    "keying, first occurrence recorded only together with count 1 on the not-contains edge, otherwise count+1; "
    "(report) every printed figure reads the accumulator/formula its label names; (mean) get_mean = sum/len "
    "with 0 for the empty slice. Decides these for every chain; float formatting is trusted.")
RULE = ("instances = stores to callback fields, reduction call sites, printed placeholders, guard relations; "
        "non-trivial = carries a provenance/width/polarity obligation; distinct by key")

CB = 'callbacks::simplestats::SimpleStats'
TXS = 'each(a2.txs)'
OUTS = 'each(enumerate(%s.value.outputs))' % TXS


def stores_table(body):
    rows = []
    for bb, ch, val, st in util.self_field_stores(body):
        rows.append((ch[0], canon(val), body.loop_depth(bb), util.guards_at(body, bb), bb))
    return rows


def rule_width(ctx):
    prog = ctx.prog
    roots = [b for b in prog.bodies.values() if b.impl_self == CB]
    reach = prog.reachable_bodies(roots)
    n = 0
    for b in reach:
        for cs in b.calls:
            m = mir.method_name(cs.name)
            if cs.trait and cs.trait.endswith('Iterator') and m in ('sum', 'product'):
                acc = cs.gargs[-1]
                w = util.int_width(acc)
                item = cs.gargs[0]
                ctx.touch(b)
                ok = (w is not None and w >= 64) or acc in ('f64',)
                ctx.check('width', 'reduction:%s:%s' % (b.path, m), ok, cs,
                          'Iterator::%s::<%s> over %s' % (m, acc, item),
                          bad_detail='Iterator::%s accumulates in %s over %s: the sum of a few thousand block sizes / '
                          'timestamp gaps exceeds 32 bits (panic in dev, wrap in release) so the mean is wrong' % (m, acc, item))
                n += 1
            if cs.trait and cs.trait.endswith('Iterator') and m == 'fold':
                acc = cs.gargs[1] if len(cs.gargs) > 1 else ''
                w = util.int_width(acc)
                if w is not None:
                    ctx.check('width', 'fold:%s' % b.path, w >= 64, cs, 'Iterator::fold accumulator %s' % acc)
                    n += 1
    # every `+=` on a field of the callback is 64-bit
    for b in roots:
        for bb, idx, place, rv, st in b.stores():
            if rv is None or rv['k'] not in ('use', 'binop'):
                continue
            e = b.rvalue_expr(rv)
            if e[0] == 'bin' and e[1] in ('Add', 'AddUnchecked'):
                ty = place['ty']
                w = util.int_width(ty)
                root, ch = mir.field_chain(b.place_expr(place))
                ctx.check('width', 'accumulator:%s' % '.'.join(ch), w is not None and w >= 64, (b, bb),
                          'self.%s += … has type %s' % ('.'.join(ch), ty))
                n += 1
    # local accumulators (tx_value)
    # in every function the callback reaches (an explicit summing loop in a helper is the same reduction as
    # Iterator::sum there); loop counters of usize width are accumulators too and pass
    for ob in sorted(reach, key=lambda b: b.path):
        if ob.kind == 'Closure' and not ob.path.startswith('callbacks::simplestats') and not ob.path.startswith('common::utils'):
            continue
        if not (ob.path.startswith('callbacks::simplestats') or ob.path.startswith('<callbacks::simplestats') or ob.path.startswith('common::utils::get_mean')):
            continue
        for l, ds in ob.defs().items():
            for d in ds:
                if d[0] == 'assign':
                    e = ob.rvalue_expr(d[3])
                    if e[0] == 'bin' and e[1] == 'Add' and mir.contains(e, lambda x: x[0] == 'cyc'):
                        ty = ob.local_ty(l)
                        if util.int_width(ty) is None and ty != 'f64':
                            continue
                        ctx.check('width', 'local-accumulator:%s:%s' % (ob.path.split('::')[-1], ob.names.get(l) or 'tmp'), ty == 'f64' or (util.int_width(ty) or 0) >= 64, (ob, d[1]),
                                  'loop-carried accumulator of type %s' % ty)
                        n += 1


EXPECT_ON_BLOCK = {
    # field: (canonical value, loop depth, required guard substrings, forbidden extra guards?)
    'n_valid_blocks': ('(self.n_valid_blocks + 1)', 0, []),
    'n_tx': ('(self.n_tx + a2.tx_count.value)', 0, []),
    'n_tx_total_fee': ('(self.n_tx_total_fee + saturating_sub(%s.value.outputs[0].out.value, get_base_reward(a3)))' % TXS, 1,
                       ['is_coinbase(%s.value)' % TXS]),
    'n_tx_inputs': ('(self.n_tx_inputs + %s.value.in_count.value)' % TXS, 1, []),
    'n_tx_outputs': ('(self.n_tx_outputs + %s.value.out_count.value)' % TXS, 1, []),
    'tx_biggest_value': ('(sum(%s.1.out.value), a3, %s.hash)' % (OUTS, TXS), 1,
                         ['self.tx_biggest_value.0 < sum(%s.1.out.value)' % OUTS]),
    'n_tx_total_volume': ('(self.n_tx_total_volume + sum(%s.1.out.value))' % OUTS, 1, []),
    'tx_biggest_size': ('(len(to_bytes(%s.value)), a3, %s.hash)' % (TXS, TXS), 1,
                        ['self.tx_biggest_size.0 < len(to_bytes(%s.value))' % TXS]),
    'last_timestamp': ('a2.header.value.timestamp', 0, []),
}

RULE_OF_FIELD = {'n_tx_total_fee': 'fee', 'tx_biggest_value': 'max', 'tx_biggest_size': 'max', 'last_timestamp': 'time'}


def rule_levels(ctx):
    prog = ctx.prog
    ob = prog.one('<%s as callbacks::Callback>::on_block' % CB)
    ctx.touch(ob)
    rows = stores_table(ob)
    seen = {}
    for fld, val, depth, guards, bb in rows:
        rule = RULE_OF_FIELD.get(fld, 'levels')
        exp = EXPECT_ON_BLOCK.get(fld)
        if exp is None:
            ctx.violation('levels', 'unexpected-store:%s' % fld, (ob, bb), 'self.%s := %s' % (fld, val))
            continue
        seen[fld] = seen.get(fld, 0) + 1
        ctx.check(rule, 'value:%s' % fld, val == exp[0], (ob, bb), 'self.%s := %s' % (fld, val),
                  bad_detail='self.%s := %s   (expected %s)' % (fld, val, exp[0]))
        ctx.check(rule, 'loop-level:%s' % fld, depth == exp[1], (ob, bb), 'updated at loop depth %d' % depth,
                  bad_detail='updated at loop depth %d, expected %d (once per %s)' % (depth, exp[1], ['block', 'transaction', 'output'][exp[1]]))
        # guards: required ones present; no other *data* guard (relations over block data) may restrict the update
        data_guards = [g for g in guards if ' is ' not in g or 'is_coinbase' in g]
        data_guards = [g for g in data_guards if not util.is_ok_guard(g) and 'next(' not in g]
        ok = sorted(data_guards) == sorted(exp[2])
        ctx.check(rule, 'guard:%s' % fld, ok, (ob, bb), 'update guarded by %s' % (data_guards or 'nothing'),
                  bad_detail='update guarded by %s, expected %s' % (data_guards, exp[2]))
    for fld in EXPECT_ON_BLOCK:
        ctx.check(RULE_OF_FIELD.get(fld, 'levels'), 'single-store:%s' % fld, seen.get(fld, 0) == 1, ob,
                  '%d store(s) to self.%s in on_block' % (seen.get(fld, 0), fld))
    # vector pushes
    pushes = [(canon(ob.op_expr(cs.args[0])), canon(ob.op_expr(cs.args[1])), ob.loop_depth(cs.bb), util.guards_at(ob, cs.bb), cs)
              for cs in ob.calls if mir.method_name(cs.name) == 'push']
    exp_push = {
        'self.block_sizes': ('a2.size', 0, [], 'levels'),
        'self.t_between_blocks': ('saturating_sub(a2.header.value.timestamp, self.last_timestamp)', 0,
                                  ['0 < self.last_timestamp'], 'time'),
    }
    got = {}
    for vec, val, depth, guards, cs in pushes:
        exp = exp_push.get(vec)
        if exp is None:
            ctx.violation('levels', 'unexpected-push:%s' % vec, cs, '%s.push(%s)' % (vec, val))
            continue
        got[vec] = got.get(vec, 0) + 1
        g = [x for x in guards if not util.is_ok_guard(x) and 'next(' not in x]
        ctx.check(exp[3], 'push:%s' % vec, val == exp[0] and depth == exp[1] and sorted(g) == sorted(exp[2]), cs,
                  '%s.push(%s) at depth %d under %s' % (vec, val, depth, g),
                  bad_detail='%s.push(%s) at depth %d under %s; expected push(%s) at depth %d under %s'
                  % (vec, val, depth, g, exp[0], exp[1], exp[2]))
    for vec in exp_push:
        ctx.check(exp_push[vec][3], 'single-push:%s' % vec, got.get(vec, 0) == 1, ob, '%d push(es) to %s' % (got.get(vec, 0), vec))
    # the last_timestamp update follows the gap computation (uses the *previous* timestamp)
    st_bb = [bb for fld, val, depth, guards, bb in rows if fld == 'last_timestamp']
    pu = [cs for cs in ob.calls if mir.method_name(cs.name) == 'checked_sub' and 'timestamp' in canon(ob.op_expr(cs.args[0]))]
    if st_bb and pu:
        ctx.check('time', 'gap-before-update', not ob.path_exists(st_bb[0], [pu[0].bb]) or ob.dominates(pu[0].bb, st_bb[0]) and not (pu[0].bb in ob.reach_from(st_bb[0]) - {st_bb[0]}),
                  (ob, st_bb[0]), 'the gap is computed before last_timestamp is overwritten')
    # per-output call of the type bookkeeping
    pt = [cs for cs in ob.calls if mir.method_name(cs.name) == 'process_tx_pattern']
    ctx.check('types', 'one-call-per-output', len(pt) == 1 and ob.loop_depth(pt[0].bb) == 2, ob,
              '%d process_tx_pattern call(s), at loop depth %s' % (len(pt), [ob.loop_depth(c.bb) for c in pt]))
    for cs in pt:
        a = [canon(x) for x in ob.arg_exprs(cs)]
        exp = ['self', '%s.1.script.pattern' % OUTS, 'a3', '%s.hash' % TXS, '(%s.0 as u32)' % OUTS]
        ctx.check('types', 'args', a == exp, cs, 'process_tx_pattern(%s)' % ', '.join(a),
                  bad_detail='process_tx_pattern(%s), expected (%s)' % (', '.join(a), ', '.join(exp)))


def rule_fee(ctx):
    prog = ctx.prog
    br = prog.one('get_base_reward')
    ctx.touch(br)
    r = canon(br.ret_expr())
    ctx.check('fee', 'base-reward-formula', r == '((50 * 100000000) >> (a1 / 210000))' or r == '(5000000000 >> (a1 / 210000))', br,
              'get_base_reward(h) = %s' % r)
    ic = prog.one('EvaluatedTx::is_coinbase')
    ctx.touch(ic)
    r = canon(ic.ret_expr())
    # true only if in_count == 1, prev txid all zero, index 0xffffffff
    dnf = util.bool_function_dnf(ic)
    accept = []
    for rels, v, p in dnf:
        v2 = peel(v) if v else v
        conds = [util.crel(x) for x in rels]
        if v2 and v2[0] == 'bool':
            if v2[1]:
                accept.append(sorted(conds))
        else:
            accept.append(sorted(conds + [canon(v2)]))
    flat = sorted(set(c for a in accept for c in a))
    need = ['self.in_count.value == 1', '(first(self.inputs)?.outpoint.index == 4294967295)']
    has_zero = any('outpoint.txid' in c and ('eq(' in c or '==' in c) for c in flat)
    ctx.check('fee', 'is_coinbase-definition', len(accept) == 1 and all(nq in flat for nq in need) and has_zero, ic,
              'is_coinbase accepts iff %s' % flat)
    zero = None
    for cs in ic.calls:
        if mir.method_name(cs.name) == 'eq':
            z = mir.unname(peel(ic.op_expr(cs.args[1])))
            zero = z
    okz = zero is not None and ((zero[0] == 'aggr' and all(mir.int_value(v) == 0 for _, v in zero[3])) or (zero[0] == 'bytes' and set(zero[1]) <= {0} and len(zero[1]) == 32))
    ctx.check('fee', 'coinbase-prevout-all-zero', bool(okz), ic, 'prev txid compared with %s' % (canon(zero) if zero else '?'))


def rule_types(ctx):
    prog = ctx.prog
    b = prog.one('SimpleStats::process_tx_pattern')
    ctx.touch(b)
    key = 'phi(ScriptPattern::OpReturn{0: new()} | a2)'
    calls = [(mir.method_name(cs.name), [canon(a) for a in b.arg_exprs(cs)],
              [g for g in util.guards_at(b, cs.bb)], cs) for cs in b.calls if not cs.macros]
    ins = [c for c in calls if c[0] == 'insert']
    # OP_RETURN payload stripped: the OpReturn arm builds OpReturn(String::new()); other patterns pass through
    news = [c for c in calls if c[0] == 'new']
    ctx.check('types', 'opreturn-payload-stripped', len(news) == 1 and news[0][2] == ['a2 is OpReturn'], b,
              'key = %s' % key)
    cnt = [c for c in ins if c[1][0] == 'self.n_tx_types']
    occ = [c for c in ins if c[1][0] == 'self.tx_first_occs']
    # accepted spellings of "this type has not been counted yet"
    cks = ['!contains_key(self.n_tx_types, %s)' % key, 'get_mut(self.n_tx_types, %s) is None' % key, 'get(self.n_tx_types, %s) is None' % key]
    ctx.check('types', 'count-starts-at-1-on-first', len(cnt) == 1 and cnt[0][1][1:] == [key, '1'] and any(ck in cnt[0][2] for ck in cks), b,
              'n_tx_types.insert(%s) under %s' % (cnt[0][1][1:] if cnt else '?', cnt[0][2] if cnt else '?'))
    # the first-occurrence insert lies in the same not-contains region (dominated by the count insert's block chain)
    ok_occ = len(occ) == 1 and occ[0][1][1:] == [key, '(a3, a4, a5)']
    if ok_occ:
        # guard facts are killed by the intervening &mut call; use dominance by the not-contains edge instead
        cbb = cnt[0][3].bb if cnt else None
        ok_occ = cbb is not None and b.dominates(cbb, occ[0][3].bb)
    ctx.check('types', 'first-occurrence-only-on-first', bool(ok_occ), b,
              'tx_first_occs.insert(%s) is dominated by the first-count insert' % (occ[0][1][1:] if occ else '?'))
    # otherwise: counter += 1
    st = [(canon(b.place_expr(p)), canon(b.rvalue_expr(rv)), util.guards_at(b, bb)) for bb, idx, p, rv, s in b.stores() if rv is not None]
    inc = [x for x in st if x[1] == '(%s + 1)' % x[0]]
    tgts = ['or_insert(entry(self.n_tx_types, %s), 1)' % key, 'or_default(entry(self.n_tx_types, %s))' % key, 'get_mut(self.n_tx_types, %s)?' % key]
    ctx.check('types', 'count-incremented-otherwise', len(inc) == 1 and inc[0][0] in tgts, b,
              'on the contains edge: %s' % (inc[0][0] + ' += 1' if inc else st))
    ctx.check('types', 'no-other-store', len(st) == 1, b, '%d store(s) in process_tx_pattern' % len(st))


REPORT = {
    'valid blocks': ['self.n_valid_blocks'],
    'total transactions': ['self.n_tx'],
    'total tx inputs': ['self.n_tx_inputs'],
    'total tx outputs': ['self.n_tx_outputs'],
    'total tx fees': ['((self.n_tx_total_fee as f64) * const<1e-8>)', 'self.n_tx_total_fee'],
    'total volume': ['((self.n_tx_total_volume as f64) * const<1e-8>)', 'self.n_tx_total_volume'],
    'avg block size': ['(get_mean(self.block_sizes) / const<1024.0>)'],
    'avg time between blocks': ['(get_mean(self.t_between_blocks) / const<60.0>)'],
    'avg txs per block': ['((self.n_tx as f64) / (self.n_valid_blocks as f64))'],
    'avg inputs per tx': ['((self.n_tx_inputs as f64) / (self.n_tx as f64))'],
    'avg outputs per tx': ['((self.n_tx_outputs as f64) / (self.n_tx as f64))'],
    'avg value per output': ['(((self.n_tx_total_volume as f64) / (self.n_tx_outputs as f64)) * const<1e-8>)'],
    'biggest value tx': ['((self.tx_biggest_value.0 as f64) * const<1e-8>)', 'self.tx_biggest_value.0'],
    'biggest size tx': ['self.tx_biggest_size.0'],
}


def rule_report(ctx):
    prog = ctx.prog
    oc = prog.one('<%s as callbacks::Callback>::on_complete' % CB)
    printers = [t for cs in oc.calls for t in prog.targets(cs) if t.impl_self == CB]
    ctx.touch(oc, *printers)
    ctx.check('report', 'four-sections', len(set(p.path for p in printers)) == 4, oc,
              'on_complete calls %s' % sorted(set(mir.method_name(p.path) for p in printers)))
    found = {}
    seen_lines = []
    for p in printers:
        prev_label = None
        for f in mir.fmt_sites(p):
            sk = f.literal_skeleton
            args = [canon(a[3]) for a in f.args]
            seen_lines.append((p, sk, args, f))
            m = re.match(r'\s*-> ([^:{]+):', sk)
            if m and m.group(1).strip() in REPORT:
                label = m.group(1).strip()
                found[label] = (args, f)
                prev_label = label
            elif 'seen in block' in sk and prev_label in ('biggest value tx', 'biggest size tx'):
                fld = 'tx_biggest_value' if prev_label == 'biggest value tx' else 'tx_biggest_size'
                ctx.check('report', 'where:%s' % prev_label, args == ['self.%s.1' % fld, 'self.%s.2' % fld], f.cs,
                          '%r <- %s' % (sk.strip(), args))
    for label, exp in REPORT.items():
        if label not in found:
            ctx.violation('report', 'missing-figure:%s' % label, oc, 'no report line labelled %r' % label)
            continue
        args, f = found[label]
        ctx.check('report', 'figure:%s' % label, args == exp, f.cs, '%s <- %s' % (label, args),
                  bad_detail='%s <- %s, expected %s' % (label, args, exp))
    # per-type lines
    tt = prog.one('SimpleStats::print_transaction_types')
    lines = [(f.literal_skeleton, [canon(a[3]) for a in f.args], f) for f in mir.fmt_sites(tt)]
    per = [x for x in lines if len(x[1]) == 3]
    k = 'each(self.n_tx_types)'
    ctx.check('report', 'type-line', len(per) == 1 and per[0][1] == [k + '.0', k + '.1', '(((%s.1 as f64) / (self.n_tx_outputs as f64)) * const<100.0>)' % k],
              per[0][2].cs if per else tt, 'type line <- %s' % (per[0][1] if per else '?'))
    first = [x for x in lines if 'first seen' in x[0]]
    g = 'get(self.tx_first_occs, %s.0)?' % k
    ctx.check('report', 'first-occurrence-line', len(first) == 1 and first[0][1] == [g + '.0', g + '.1'], first[0][2].cs if first else tt,
              'first-seen line <- %s' % (first[0][1] if first else '?'))


def rule_mean(ctx):
    prog = ctx.prog
    gm = prog.one('utils::get_mean')
    ctx.touch(gm)
    r = canon(gm.ret_expr(), keep_casts=False)
    m = re.match(r'^phi\(\(sum\((.*)\) / len\(a1\)\) \| const<0\.0>\)$', r)
    ok = False
    if m:
        x = m.group(1)
        if x in ('a1', 'each(a1)'):
            ok = True   # Iterator::sum over the slice, or an accumulator over each of its elements
        else:
            m2 = re.match(r'^map\(a1, closure:(.*)\)$', x)
            if m2:
                # element-wise widening only: the closure returns its argument (casts aside)
                cl = [b for b in prog.bodies.values() if b.kind == 'Closure' and b.closure_parent == gm.path and b.path.endswith(m2.group(1))]
                ok = len(cl) == 1 and canon(cl[0].ret_expr(), keep_casts=False) == 'a2'
                ctx.touch(*cl)
    ctx.check('mean', 'sum-over-len', ok, gm, 'get_mean(s) = %s' % r)
    # 0.0 exactly on the empty edge
    for d in gm.ret_defs():
        if d[0] == 'assign':
            v = canon(gm.rvalue_expr(d[3]), keep_casts=False)
            g = util.guards_at(gm, d[1])
            if v == 'const<0.0>':
                ctx.check('mean', 'zero-iff-empty', g == ['is_empty(a1)'], (gm, d[1]), 'returns 0 under %s' % g)
            else:
                # (the exit test of a summing loop over the same slice is not a condition on the input)
                g2 = [x for x in g if x != 'next(a1) is None']
                ctx.check('mean', 'division-guarded-nonempty', g2 == ['!is_empty(a1)'], (gm, d[1]), 'divides under %s' % g)
    # the division happens in floating point (no integer truncation before dividing)
    for i in gm.live:
        for st in gm.blocks[i]['stmts']:
            if st['k'] == 'assign' and st['rv']['k'] == 'binop' and st['rv']['op'] == 'Div':
                ctx.check('mean', 'float-division', st['place']['ty'] == 'f64', (gm, i), 'Div in %s' % st['place']['ty'])


def run(ctx):
    ctx.trusted += ['f64 formatting ({:.2}/{:.8})', 'HashMap semantics', 'ToRaw::to_bytes is the witness-free serialisation (C01.ser)']
    ctx.guard('width', rule_width)
    ctx.guard('levels', rule_levels)
    ctx.guard('fee', rule_fee)
    ctx.guard('types', rule_types)
    ctx.guard('report', rule_report)
    ctx.guard('mean', rule_mean)
    ctx.floor('width', 6)   # vacuity guard (9 on the pinned tree; an edit may legitimately merge or drop an accumulator)
    ctx.floor('levels', 14)
    ctx.floor('fee', 6)
    ctx.floor('max', 8)
    ctx.floor('time', 5)
    ctx.floor('types', 7)
    ctx.floor('report', 18)
    ctx.floor('mean', 4)
