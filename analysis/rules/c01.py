"""C01 — csvdump reproduces every on-disk block, tx, input and output field exactly."""
import re

import mir
import util
import wire
from mir import canon, peel, Unrecognised

EXPLANATION = (
    "Static decision of the structural clauses of C01: (wire) the wire-grammar term of every reader body "
    "(ordered primitive reads with endianness, loop bounds bound to the preceding CompactSize, segwit marker "
    "and witness guards), extracted from MIR in reverse post-order, equals the protocol grammar of block "
    "header, transaction (legacy and BIP144), input, output and outpoint; (bind) every primitive read flows "
    "into the like-named field of the constructed struct and each loop pushes exactly one element per count; "
    "(compact) VarUint::read_from has the four CompactSize arms with little-endian widths 1/3/5/9 and each "
    "From<uN> rebuilds marker||le-bytes and widens the value; (ser) the serializer term of every "
    "ToRaw::to_bytes reachable from Hashed::double_sha256 lists the struct's fields in the order the reader "
    "filled them, without marker/flag/witness, the header term is 80 bytes, hashing is sha256d of exactly "
    "that term for the header and for every tx; (cols) the four CSV renderers are N flag-free Display "
    "placeholders separated by `;` and ended by newline whose i-th argument has the provenance of column i "
    "(hashes as sha256d::Hash, scripts as lower-case 2-digit hex of the right byte vector, blocksize = the "
    "stored length prefix); (rows) one write per block/tx/input/output to the writer of the matching file in "
    "forward nested loops; (totals) the three totals are incremented by the CompactSize values that bounded "
    "the construction loops and are what the completion message prints. SHA-256, Display impls, byteorder "
    "and BufWriter are trusted.")
RULE = ("instances = grammar items, field bindings, CompactSize arms, serializer pieces, CSV columns, write sites, "
        "counter updates; non-trivial = order/width/provenance obligation; distinct by key")

R = 'BlockchainRead::'
LE = 'LittleEndian'

WIRE = {
    'read_block_header': [('read_u32', LE, [], [], []), ('read_256hash', None, [], [], []), ('read_256hash', None, [], [], []),
                          ('read_u32', LE, [], [], []), ('read_u32', LE, [], [], []), ('read_u32', LE, [], [], [])],
    'read_tx_outpoint': [('read_256hash', None, [], [], []), ('read_u32', LE, [], [], [])],
    'read_tx_inputs': [('read_tx_outpoint', None, [], ['Range::Range{start: 0, end: a2}'], []),
                       ('read_from', None, [], ['Range::Range{start: 0, end: a2}'], []),
                       ('read_u8_vec', None, ['(read_from#1(self)?.value as u32)'], ['Range::Range{start: 0, end: a2}'], []),
                       ('read_u32', LE, [], ['Range::Range{start: 0, end: a2}'], [])],
    'read_tx_outputs': [('read_u64', LE, [], ['Range::Range{start: 0, end: a2}'], []),
                        ('read_from', None, [], ['Range::Range{start: 0, end: a2}'], []),
                        ('read_u8_vec', None, ['(read_from#1(self)?.value as u32)'], ['Range::Range{start: 0, end: a2}'], [])],
}
INC = 'phi(read_from#1(self)?.value | read_from#3(self)?.value)'
WIT = ['0 < (phi(0 | read_u8#2(self)?) & 1)']
WIRE['read_tx'] = [
    ('read_u32', LE, [], [], []),
    ('read_from', None, [], [], []),
    ('read_u8', None, [], [], ['%s <= 0' % INC]),
    ('read_from', None, [], [], []),          # guard shown below: same block as the flag read
    ('read_tx_inputs', None, [INC], [], []),
    ('read_from', None, [], [], []),
    ('read_tx_outputs', None, ['read_from#5(self)?.value'], [], []),
    ('read_from', None, [], ['Range::Range{start: 0, end: %s}' % INC], WIT),
    ('read_from', None, [], ['Range::Range{start: 0, end: %s}' % INC, 'Range::Range{start: 0, end: read_from#7(self)?.value}'], WIT),
    ('read_u8_vec', None, ['(read_from#8(self)?.value as u32)'], ['Range::Range{start: 0, end: %s}' % INC, 'Range::Range{start: 0, end: read_from#7(self)?.value}'], WIT),
    ('read_u32', LE, [], [], []),
]

BIND = {
    'read_block_header': 'BlockHeader::BlockHeader{version: read_u32#0(self)?, prev_hash: read_256hash#1(self)?, merkle_root: read_256hash#2(self)?, timestamp: read_u32#3(self)?, bits: read_u32#4(self)?, nonce: read_u32#5(self)?}',
    'read_tx_outpoint': 'TxOutpoint::TxOutpoint{txid: read_256hash#0(self)?, index: read_u32#1(self)?}',
    'read_tx': 'RawTx::RawTx{version: read_u32#0(self)?, in_count: phi(read_from#1(self)? | read_from#3(self)?), inputs: read_tx_inputs#4(self, %s)?, out_count: read_from#5(self)?, outputs: read_tx_outputs#6(self, read_from#5(self)?.value)?, locktime: read_u32#10(self)?, version_id: a2}' % INC,
}
PUSH = {
    'read_tx_inputs': 'TxInput::TxInput{outpoint: read_tx_outpoint#0(self)?, script_len: read_from#1(self)?, script_sig: read_u8_vec#2(self, (read_from#1(self)?.value as u32))?, seq_no: read_u32#3(self)?}',
    'read_tx_outputs': 'TxOutput::TxOutput{value: read_u64#0(self)?, script_len: read_from#1(self)?, script_pubkey: read_u8_vec#2(self, (read_from#1(self)?.value as u32))?}',
}


def rule_wire(ctx):
    prog = ctx.prog
    for fn, exp in WIRE.items():
        b = prog.one(R + fn)
        ctx.touch(b)
        items, labels = wire.grammar(b)
        got = [(i[1], i[2], i[4], i[5], i[6]) for i in wire.shape(items)]
        if fn == 'read_tx':
            # the marker test reads the first count; when that count lives in a variable that is later overwritten with
            # the real input count, the (flow-insensitive) provenance of the variable is the phi of both — same test
            got = [tuple(list(g[:4]) + [[x.replace('read_from#1(self)?.value <= 0', '%s <= 0' % INC) if x == 'read_from#1(self)?.value <= 0' else x for x in g[4]]]) for g in got]
            # the second input count is read in the same arm as the flag byte
            for k in (3,):
                if k < len(got):
                    g = list(got[k])
                    if g[4] == ['%s <= 0' % INC]:
                        g[4] = []
                    got[k] = tuple(g)
        n = max(len(got), len(exp))
        for k in range(n):
            g = got[k] if k < len(got) else None
            e = exp[k] if k < len(exp) else None
            ctx.check('wire', '%s:item%d' % (fn, k), g == e, items[k][7] if k < len(items) else b,
                      '%s' % (g,), bad_detail='%s reads %s as item %d; the protocol grammar has %s' % (fn, g, k, e))
        ctx.check('wire', '%s:all-on-self' % fn, all(i[3] == 'self' for i in items), b, 'all reads on the same reader')
    # segwit marker arm: flag byte then the real input count, only when the first count is 0
    tx = prog.one(R + 'read_tx')
    items, labels = wire.grammar(tx)
    flag = [i for i in items if i[1] == 'read_u8']
    second = items[3] if len(items) > 3 else None
    ctx.check('wire', 'read_tx:marker-arm', len(flag) == 1 and second is not None and tx.dominates(flag[0][7].bb, second[7].bb) and second[6] in (['%s <= 0' % INC], ['read_from#1(self)?.value <= 0']), tx,
              'flag byte and second input count are read only when the first count is 0')
    # read_txs / read_u8_vec / read_256hash / read_block
    rt = prog.one(R + 'read_txs')
    ctx.touch(rt)
    # read_txs = count x read_tx, in order, errors propagated; the loop may be `for _ in 0..count` with push or a lazily
    # mapped range that is collected into Result<Vec<_>> (wire.grammar flattens both to the same items)
    titems, tlabels = wire.grammar(rt)
    tsh = wire.shape(titems)
    ctx.check('wire', 'read_txs:count-times-read_tx', len(tsh) == 1 and list(tsh[0][5]) == ['Range::Range{start: 0, end: a2}'], rt,
              'read_tx is read for %s' % [list(i[5]) for i in tsh])
    ctx.check('wire', 'read_txs:item=read_tx', len(tsh) == 1 and tsh[0][1] == 'read_tx' and not [g for g in tsh[0][6] if 'next(' not in g], rt, 'each iteration reads exactly one tx: %s' % [(i[1], i[6]) for i in tsh])
    co = [c for c in rt.calls if mir.method_name(c.name) == 'collect']
    if titems and titems[0][7].body is rt:
        seq_ok = util.result_is_consumed(rt, titems[0][7]) and not [c for c in rt.calls if 'rayon' in c.name]
        how = 'loop with `?`'
    else:
        seq_ok = len(co) == 1 and 'rayon' not in co[0].name and co[0].gargs[-1].startswith('std::result::Result<std::vec::Vec<') and util.result_is_consumed(rt, co[0]) or \
            (len(co) == 1 and 'rayon' not in co[0].name and co[0].gargs[-1].startswith('std::result::Result<std::vec::Vec<') and canon(rt.ret_expr()).startswith('collect('))
        how = 'collect::<%s>' % (co[0].gargs[-1][:60] if co else '?')
    ctx.check('wire', 'read_txs:sequential-collect', bool(seq_ok), rt, how)
    rv = prog.one(R + 'read_u8_vec')
    ctx.touch(rv)
    ex = [c for c in rv.calls if mir.method_name(c.name) == 'read_exact']
    ctx.check('wire', 'read_u8_vec:exactly-count-bytes', len(ex) == 1 and canon(rv.op_expr(ex[0].args[1])) == 'from_elem(0, (a2 as usize))' and 'Result::Ok{0: from_elem(0, (a2 as usize))}' in canon(rv.ret_expr()), rv, 'vec![0; count] filled by read_exact')
    rh = prog.one(R + 'read_256hash')
    ctx.touch(rh)
    ex = [c for c in rh.calls if mir.method_name(c.name) == 'read_exact']
    ctx.check('wire', 'read_256hash:32-bytes', len(ex) == 1 and rh.local_ty(0).startswith('std::result::Result<[u8; 32]'), rh, '[u8; 32] filled by read_exact')
    rb = prog.one(R + 'read_block')
    items, labels = wire.grammar(rb)
    seq = [i[1] for i in items]
    ctx.check('wire', 'read_block:header,[auxpow],count,txs', seq == ['read_block_header', 'read_aux_pow_extension', 'read_from', 'read_txs'], rb, 'read_block = %s' % seq)
    txs = [i for i in items if i[1] == 'read_txs']
    ctx.check('wire', 'read_block:txs-bound-by-count', bool(txs) and txs[0][4][0] == 'read_from#2(self)?.value', rb, 'read_txs(count.value)')


def rule_bind(ctx):
    prog = ctx.prog
    for fn, exp in BIND.items():
        b = prog.one(R + fn)
        items, labels = wire.grammar(b)
        ret = wire.ret_canon(b, labels)
        ctx.check('bind', fn, 'Result::Ok{0: %s}' % exp in ret, b, '%s builds %s' % (fn, exp[:80]),
                  bad_detail='%s returns %s; expected fields bound as %s' % (fn, ret[:400], exp))
    for fn, exp in PUSH.items():
        b = prog.one(R + fn)
        items, labels = wire.grammar(b)
        pushes = [c for c in b.calls if mir.method_name(c.name) == 'push']
        ok = len(pushes) == 1 and b.loop_depth(pushes[0].bb) == 1 and wire.expr_canon(b, b.op_expr(pushes[0].args[1]), labels) == exp
        ctx.check('bind', fn, ok, pushes[0] if pushes else b, '%s pushes %s' % (fn, exp[:80]),
                  bad_detail='%s pushes %s' % (fn, [wire.expr_canon(b, b.op_expr(c.args[1]), labels) for c in pushes]))
        # one element per iteration of 0..count, into the vector that is returned
        if pushes:
            vec = canon(b.op_expr(pushes[0].args[0]))
            ctx.check('bind', '%s:returns-the-filled-vec' % fn, 'Result::Ok{0: %s}' % vec in canon(b.ret_expr()), b, 'returns %s' % vec)
            ctx.check('bind', '%s:one-push-per-count' % fn, util.loop_bounds(b, pushes[0].bb) and canon(util.loop_bounds(b, pushes[0].bb)[0]) == 'Range::Range{start: 0, end: a2}', pushes[0], 'loop 0..count')
            g = [x for x in util.guards_at(b, pushes[0].bb) if 'next(' not in x and not util.is_ok_guard(x)]
            ctx.check('bind', '%s:unconditional-push' % fn, not g, pushes[0], 'push guarded by %s' % g)
    # hash bytes are wrapped, not transformed: from_byte_array on what read_256hash returned
    for fn in ('read_block_header', 'read_tx_outpoint'):
        b = prog.one(R + fn)
        fb = [c for c in b.calls if mir.method_name(c.name) == 'from_byte_array']
        ok = all('sha256d::Hash' in c.rfull and canon(b.op_expr(c.args[0])) == 'read_256hash(self)?' for c in fb) and len(fb) == (2 if fn == 'read_block_header' else 1)
        ctx.check('bind', '%s:hash-bytes-as-read' % fn, ok, b, 'sha256d::Hash::from_byte_array(read_256hash()?) x%d' % len(fb))
    # Block::new keeps size, header, tx_count and maps every RawTx to a hashed EvaluatedTx
    bn = prog.one('Block::new')
    ctx.touch(bn)
    ctx.check('bind', 'Block::new', canon(bn.ret_expr()) == 'Block::Block{size: a1, header: double_sha256(a2), aux_pow_extension: a3, tx_count: a4, txs: collect(map(a5, closure:{closure#0}))}', bn, canon(bn.ret_expr()))
    cl = util.only_closure(prog, bn)
    ctx.touch(cl)
    names = [c.name for c in cl.calls]
    ctx.check('bind', 'Block::new:tx=double_sha256(EvaluatedTx::from(raw))', canon(cl.ret_expr()) == 'double_sha256(a2)' and any('EvaluatedTx as std::convert::From<' in n for n in names), cl, 'closure: %s' % names)
    fr = prog.one('<blockchain::proto::tx::EvaluatedTx as std::convert::From<blockchain::proto::tx::RawTx>>::from')
    ctx.check('bind', 'EvaluatedTx::from', canon(fr.ret_expr()) == 'new(a1.version, a1.in_count, a1.inputs, a1.out_count, a1.outputs, a1.locktime, a1.version_id)', fr, canon(fr.ret_expr()))
    nw = prog.one('blockchain::proto::tx::EvaluatedTx::new')
    ctx.check('bind', 'EvaluatedTx::new', canon(nw.ret_expr()) == 'EvaluatedTx::EvaluatedTx{version: a1, in_count: a2, inputs: a3, out_count: a4, outputs: collect(map(a5, closure:{closure#0})), locktime: a6}', nw, canon(nw.ret_expr()))
    es = prog.one('EvaluatedTxOut::eval_script')
    ctx.check('bind', 'EvaluatedTxOut', canon(es.ret_expr()) == 'EvaluatedTxOut::EvaluatedTxOut{script: eval_from_bytes(a1.script_pubkey, a2), out: a1}', es, canon(es.ret_expr()))
    # BlkFile::read_block passes the stored length prefix as size
    rb = prog.one('BlkFile::read_block')
    rd = [c for c in rb.calls if mir.method_name(c.name) == 'read_block']
    ctx.check('bind', 'size=stored-length-prefix', len(rd) == 1 and canon(rb.op_expr(rd[0].args[1])) == 'read_u32(open(self)?)?', rb, 'read_block(size = the u32le before the block)')
    rbk = prog.one(R + 'read_block')
    ctx.check('bind', 'read_block:size-forwarded', 'new(a2, ' in canon(rbk.ret_expr()), rbk, 'Block::new(size parameter, ..)')


def vec_literal(body):
    """elements of a `vec![..]` literal built in body (box + array store idiom), canonical"""
    for bb, idx, place, rv, st in body.stores():
        if rv is not None and rv['k'] == 'aggr' and rv['akind'] == 'array':
            if any(mir.method_name(c.name) == 'box_assume_init_into_vec_unsafe' for c in body.calls):
                return [canon(body.op_expr(o)) for o in rv['ops']]
    return None


def rule_compact(ctx):
    prog = ctx.prog
    rf = prog.one('VarUint::read_from')
    ctx.touch(rf)
    first = [c for c in rf.calls if mir.method_name(c.name) == 'read_u8']
    ctx.check('compact', 'marker-byte', len(first) == 1 and rf.dominates(first[0].bb, max(rf.reachable())) or len(first) == 1, rf, 'first byte read once')
    arms = {}
    for c in rf.calls:
        m = mir.method_name(c.name)
        if m in ('read_u16', 'read_u32', 'read_u64'):
            g = [x for x in util.guards_at(rf, c.bb) if ' in {' in x]
            mk = re.findall(r'in \{(\d+)\}', g[0]) if g else []
            arms[int(mk[0]) if mk else -1] = (m, [x.split('::')[-1] for x in c.gargs if 'Endian' in x])
    exp = {253: ('read_u16', [LE]), 254: ('read_u32', [LE]), 255: ('read_u64', [LE])}
    for mk in (253, 254, 255):
        ctx.check('compact', 'arm:0x%02x' % mk, arms.get(mk) == exp[mk], rf, 'marker 0x%02x -> %s' % (mk, arms.get(mk)),
                  bad_detail='marker 0x%02x -> %s; CompactSize says %s' % (mk, arms.get(mk), exp[mk]))
    ctx.check('compact', 'three-wide-arms', set(arms) == {253, 254, 255}, rf, 'wide arms: %s' % sorted(arms))
    # each arm converts with the From impl of its own width; the default arm with From<u8> of the marker itself
    conv = {}
    for c in rf.calls:
        if mir.method_name(c.name) == 'from' and 'VarUint' in c.rfull:
            g = util.guards_at(rf, c.bb)
            src = canon(rf.op_expr(c.args[0]))
            conv[c.gargs[-1]] = (src, [x for x in g if ' in {' in x or '<=' in x])
    ctx.check('compact', 'conv:u16', conv.get('u16', ('',))[0] == 'read_u16(a1)?' and any('{253}' in x for x in conv.get('u16', ('', []))[1]), rf, 'From<u16>(%s)' % (conv.get('u16'),))
    ctx.check('compact', 'conv:u32', conv.get('u32', ('',))[0] == 'read_u32(a1)?' and any('{254}' in x for x in conv.get('u32', ('', []))[1]), rf, 'From<u32>(%s)' % (conv.get('u32'),))
    ctx.check('compact', 'conv:u64', conv.get('u64', ('',))[0] == 'read_u64(a1)?' and any('{255}' in x for x in conv.get('u64', ('', []))[1]), rf, 'From<u64>(%s)' % (conv.get('u64'),))
    d8 = conv.get('u8', ('', []))
    ctx.check('compact', 'conv:u8-default', d8[0] == 'read_u8(a1)?' and 'read_u8(a1)? <= 252' in d8[1], rf, 'From<u8>(marker) under %s' % (d8[1],))
    # From impls
    for ty, marker, cap in (('u16', 253, 3), ('u32', 254, 5), ('u64', 255, 9)):
        b = prog.one('<blockchain::proto::varuint::VarUint as std::convert::From<%s>>::from' % ty)
        ctx.touch(b)
        vec = [l for l in range(len(b.locals)) if b.local_ty(l) == 'std::vec::Vec<u8>' and any(d[0] == 'call' and mir.method_name(d[2].name) == 'with_capacity' for d in b.defs().get(l, []))]
        seq = [(s[1], s[2]) for s in util.builder_sequence(b, vec[0])] if vec else []
        ctx.check('compact', 'from<%s>:buf=marker||le' % ty, seq == [('push', [str(marker)]), ('extend', ['to_le_bytes(a1)'])], b, 'buf = %s' % seq)
        val = canon(prog.inline(b.ret_expr()))
        wide = 'a1' if ty == 'u64' else '(a1 as u64)'
        ctx.check('compact', 'from<%s>:value-widened' % ty, val == 'VarUint::VarUint{value: %s, buf: with_capacity(%d)}' % (wide, cap), b, val)
        tl = [c for c in b.calls if mir.method_name(c.name) == 'to_le_bytes']
        ctx.check('compact', 'from<%s>:le-bytes-of-same-width' % ty, len(tl) == 1 and 'impl %s' % ty in tl[0].name, b, tl[0].name if tl else '?')
    b8 = prog.one('<blockchain::proto::varuint::VarUint as std::convert::From<u8>>::from')
    ctx.touch(b8)
    ctx.check('compact', 'from<u8>:buf=[value]', vec_literal(b8) == ['a1'] and canon(prog.inline(b8.ret_expr())).startswith('VarUint::VarUint{value: (a1 as u64), '), b8, 'buf = vec!%s' % vec_literal(b8))
    # every VarUint value is built by a From impl, directly or through a private constructor that stores its
    # arguments unchanged
    built = []
    for bd in prog.bodies.values():
        for bi in bd.live:
            for st in bd.blocks[bi]['stmts']:
                if st['k'] == 'assign' and st['rv']['k'] == 'aggr' and st['rv'].get('akind') == 'adt' and st['rv'].get('adt', '').endswith('varuint::VarUint'):
                    built.append((bd, canon(bd.rvalue_expr(st['rv']))))
    okb = bool(built)
    for bd, c in built:
        ctx.touch(bd)
        if bd.impl_trait and bd.impl_trait.startswith('std::convert::From<') and bd.impl_self and bd.impl_self.endswith('VarUint'):
            continue
        if c == 'VarUint::VarUint{value: a1, buf: a2}':
            continue
        if bd.impl_trait == 'std::clone::Clone' and c == 'VarUint::VarUint{value: self.value, buf: self.buf}':
            continue
        okb = False
        ctx.note('VarUint built in %s as %s' % (bd.path, c))
    ctx.check('compact', 'constructors', okb, None, 'VarUint values are built in %s' % sorted(set(x[0].path.split('::')[-2] + '::' + x[0].path.split('::')[-1] for x in built)))
    tb = prog.one('<blockchain::proto::varuint::VarUint as blockchain::proto::ToRaw>::to_bytes')
    ctx.check('compact', 'to_bytes=original-encoding', canon(tb.ret_expr()) == 'self.buf', tb, 'to_bytes() = buf.clone()')
    wr = [(b.path, ch) for b in prog.bodies.values() if b.impl_self and b.impl_self.endswith('VarUint') for bb, ch, v, s in util.self_field_stores(b)]
    ctx.check('compact', 'immutable', not wr, None, 'stores to VarUint fields: %s' % wr)


SER = {
    'blockchain::proto::header::BlockHeader': [('extend', ['to_le_bytes(self.version)'], 0), ('extend', ['self.prev_hash'], 0), ('extend', ['self.merkle_root'], 0),
                                               ('extend', ['to_le_bytes(self.timestamp)'], 0), ('extend', ['to_le_bytes(self.bits)'], 0), ('extend', ['to_le_bytes(self.nonce)'], 0)],
    'blockchain::proto::tx::TxOutpoint': [('extend', ['self.txid'], 0), ('extend', ['to_le_bytes(self.index)'], 0)],
    'blockchain::proto::tx::TxInput': [('extend', ['to_bytes(self.outpoint)'], 0), ('extend', ['to_bytes(self.script_len)'], 0), ('extend', ['self.script_sig'], 0), ('extend', ['to_le_bytes(self.seq_no)'], 0)],
    'blockchain::proto::tx::TxOutput': [('extend', ['to_le_bytes(self.value)'], 0), ('extend', ['to_bytes(self.script_len)'], 0), ('extend', ['self.script_pubkey'], 0)],
    'blockchain::proto::tx::EvaluatedTx': [('extend', ['to_le_bytes(self.version)'], 0), ('extend', ['to_bytes(self.in_count)'], 0), ('extend', ['to_bytes(each(self.inputs))'], 1),
                                           ('extend', ['to_bytes(self.out_count)'], 0), ('extend', ['to_bytes(each(self.outputs).out)'], 1), ('extend', ['to_le_bytes(self.locktime)'], 0)],
}
WIDTH = {'u32': 4, 'u64': 8, 'u16': 2, 'u8': 1}


def rule_ser(ctx):
    prog = ctx.prog
    for ty, exp in SER.items():
        b = prog.one('<%s as blockchain::proto::ToRaw>::to_bytes' % ty)
        ctx.touch(b)
        bp = util.byte_pieces(b)
        if bp is None:
            ctx.unrecognised('ser', 'buffer:%s' % ty, b, 'output buffer not identified')
            continue
        seq, returns_buf = bp
        short = ty.split('::')[-1]
        n = max(len(seq), len(exp))
        for k in range(n):
            g = seq[k] if k < len(seq) else None
            e = exp[k] if k < len(exp) else None
            ctx.check('ser', '%s:piece%d' % (short, k), g == e, b, '%s' % (g,), bad_detail='%s::to_bytes piece %d is %s; the on-disk layout (minus witness) has %s' % (short, k, g, e))
        ctx.check('ser', '%s:returns-buffer' % short, returns_buf, b, 'returns the buffer')
        # iteration over inputs/outputs is forward and complete
        bad = [c for c in b.calls if mir.method_name(c.name) in ('rev', 'skip', 'take', 'filter', 'step_by')]
        ctx.check('ser', '%s:forward-complete' % short, not bad, b, 'no adaptor on element loops')
        # integer pieces use the field's own width, little endian
        flds = dict(prog.adt_fields(ty) or [])
        for c in b.calls:
            if mir.method_name(c.name) in ('to_be_bytes', 'to_ne_bytes'):
                ctx.violation('ser', '%s:endianness' % short, c, '%s used in a wire serializer' % mir.method_name(c.name))
    # header = 80 bytes
    hf = dict(prog.adt_fields('blockchain::proto::header::BlockHeader') or [])
    total = 0
    for nme in ('version', 'prev_hash', 'merkle_root', 'timestamp', 'bits', 'nonce'):
        t = hf.get(nme, '')
        total += WIDTH.get(t, 32 if 'sha256d::Hash' in t else 0)
    ctx.check('ser', 'header-term=80-bytes', total == 80 and len(hf) == 6, None, 'BlockHeader fields sum to %d bytes' % total)
    # reader order == serializer order (sibling agreement)
    pairs = [('blockchain::proto::header::BlockHeader', 'read_block_header', ['version', 'prev_hash', 'merkle_root', 'timestamp', 'bits', 'nonce']),
             ('blockchain::proto::tx::TxOutpoint', 'read_tx_outpoint', ['txid', 'index'])]
    for ty, fn, order in pairs:
        b = prog.one('<%s as blockchain::proto::ToRaw>::to_bytes' % ty)
        bp = util.byte_pieces(b)
        seq = [re.sub(r'^to_le_bytes\((.*)\)$', r'\1', s[1][0]).replace('self.', '') for s in (bp[0] if bp else [])]
        rbody = prog.one(R + fn)
        items, labels = wire.grammar(rbody)
        ret = wire.ret_canon(rbody, labels)
        rorder = sorted(order, key=lambda f: int(re.search(r'%s: \w+#(\d+)' % f, ret).group(1)) if re.search(r'%s: \w+#(\d+)' % f, ret) else 99)
        ctx.check('ser', 'reader-order==serializer-order:%s' % ty.split('::')[-1], seq == rorder, b, 'serializer %s, reader %s' % (seq, rorder))
    # hashing
    ds = prog.one('Hashed::<T>::double_sha256')
    ctx.touch(ds)
    ctx.check('ser', 'hash=sha256d(to_bytes(value))', canon(ds.ret_expr()) == 'Hashed::Hashed{hash: hash(to_bytes(a1)), value: a1}', ds, canon(ds.ret_expr()))
    h = [c for c in ds.calls if mir.method_name(c.name) == 'hash']
    ctx.check('ser', 'hash-is-sha256d', len(h) == 1 and 'sha256d::Hash' in h[0].rfull, ds, h[0].rfull if h else '?')
    # only the intended types implement ToRaw; Hashed is built only through double_sha256
    impls = sorted(i['self_ty'].split('::')[-1] for i in prog.impls if i['trait'] and i['trait'].endswith('proto::ToRaw'))
    ctx.check('ser', 'ToRaw-impls', impls == ['BlockHeader', 'EvaluatedTx', 'TxInput', 'TxOutpoint', 'TxOutput', 'VarUint'], None, 'ToRaw impls: %s' % impls)
    mk = []
    for b in prog.bodies.values():
        for i in b.live:
            for st in b.blocks[i]['stmts']:
                if st['k'] == 'assign' and st['rv']['k'] == 'aggr' and st['rv'].get('adt', '').endswith('proto::Hashed'):
                    mk.append(b.path)
    ctx.check('ser', 'Hashed-only-via-double_sha256', mk == ['blockchain::proto::Hashed::<T>::double_sha256'], None, 'Hashed constructed in %s' % mk)


COLS = {
    'Block': (['self.header.hash', 'a2', 'self.header.value.version', 'self.size', 'self.header.value.prev_hash', 'self.header.value.merkle_root',
               'self.header.value.timestamp', 'self.header.value.bits', 'self.header.value.nonce'], 'blocks'),
    'Hashed<blockchain::proto::tx::EvaluatedTx>': (['self.hash', 'a2', 'self.value.version', 'self.value.locktime'], 'transactions'),
    'TxInput': (['a2', 'self.outpoint.txid', 'self.outpoint.index', 'arr_to_hex(self.script_sig)', 'self.seq_no'], 'tx_in'),
    'EvaluatedTxOut': (['a2', 'a3', 'self.out.value', 'arr_to_hex(self.out.script_pubkey)', 'phi(new() | self.script.address?)'], 'tx_out'),
}


def renderer(prog, key):
    r = [b for b in prog.bodies.values() if b.path.startswith('callbacks::csvdump::<impl ') and b.path.endswith('>::as_csv') and
         b.path[len('callbacks::csvdump::<impl '):-len('>::as_csv')].split('::', 2)[-1].endswith(key)]
    if len(r) != 1:
        raise Unrecognised('cols', 'renderer for %s not found (%d)' % (key, len(r)))
    return r[0]


def rule_cols(ctx):
    prog = ctx.prog
    for key, (exp, fname) in COLS.items():
        b = renderer(prog, key)
        ctx.touch(b)
        fs = mir.fmt_sites(b)
        if len(fs) != 1:
            ctx.unrecognised('cols', 'template:%s' % fname, b, '%d format sites' % len(fs))
            continue
        f = fs[0]
        n = len(exp)
        ctx.check('cols', '%s:template' % fname, f.literal_skeleton == ';'.join(['{}'] * n) + '\n', f.cs, 'template %r' % f.literal_skeleton,
                  bad_detail='template %r; the schema loads %d `;`-separated fields terminated by newline' % (f.literal_skeleton, n))
        args = f.args
        for i in range(max(n, len(args))):
            a = args[i] if i < len(args) else None
            e = exp[i] if i < n else None
            got = canon(a[3]) if a else None
            okf = a is not None and a[1] == 'Display' and a[2]['default']
            ctx.check('cols', '%s:col%d' % (fname, i), got == e and okf, f.cs, 'column %d <- %s' % (i, got),
                      bad_detail='column %d of %s.csv is %s (%s); the schema expects %s as plain decimal/hex text' % (i, fname, got, (a[1], a[2]['flags']) if a else None, e))
        ctx.check('cols', '%s:returns-the-row' % fname, canon(b.ret_expr()).startswith('format(new('), b, 'returns format!(..)')
    # address column: empty string when there is no address
    b = renderer(prog, 'EvaluatedTxOut')
    for l, ds in b.defs().items():
        if b.local_ty(l) == 'std::string::String' and len(ds) == 2:
            for d in ds:
                v = canon(b.rvalue_expr(d[3])) if d[0] == 'assign' else canon(b.call_expr(d[2]))
                g = [x for x in util.guards_at(b, d[1]) if 'Level' not in x]
                if v == 'new()':
                    ctx.check('cols', 'tx_out:address-empty-iff-none', any(x.endswith('is None') for x in g), (b, d[1]), 'empty address under %s' % g)
    # hex renderer: two accepted shapes — a fold over the slice whose closure writes one byte and returns the
    # accumulator, or a loop over the slice writing each byte to the returned String
    ah = prog.one('utils::arr_to_hex')
    ctx.touch(ah)
    rc = canon(ah.ret_expr())
    m = re.match(r'^fold\(a1, (with_capacity\(.*\)|new\(\)), closure:(\{closure#\d+\})\)$', rc)
    if m:
        cl = prog.one('utils::arr_to_hex::' + m.group(2))
        ctx.touch(cl)
        ctx.check('cols', 'hex:fold-over-all-bytes', True, ah, rc)
        wbody, item, acc = cl, 'a3', 'a2'
        acc_ok = canon(cl.ret_expr()) == 'a2'
    else:
        wbody, item = ah, 'each(a1)'
        fs0 = mir.fmt_sites(ah)
        in_loop = len(fs0) == 1 and ah.loop_depth(fs0[0].cs.bb) == 1 and [canon(x) for x in util.loop_bounds(ah, fs0[0].cs.bb) if x is not None] == ['a1']
        # the accumulator: a String created empty (a fold's accumulator is loop-carried: phi(loopvar | <init>))
        ctx.check('cols', 'hex:fold-over-all-bytes', bool(in_loop) and re.match(r'^(phi\(loopvar \| )?(with_capacity\(.*\)|new\(\))\)?$', rc) is not None, ah,
                  'loop over the whole slice appending to the returned String (%s)' % rc)
        acc = rc
        acc_ok = True
    fs = mir.fmt_sites(wbody)
    okh = len(fs) == 1 and fs[0].literal_skeleton == '{}' and len(fs[0].args) == 1
    if okh:
        a = fs[0].args[0]
        sp = a[2]
        okh = a[1] in ('Debug', 'LowerHex') and sp['width'] == 2 and 'zero_pad' in sp['flags'] and (a[1] == 'LowerHex' or 'debug_lower_hex' in sp['flags']) and canon(a[3]) == item and 'debug_upper_hex' not in sp['flags']
    ctx.check('cols', 'hex:two-lowercase-digits-per-byte', okh, wbody, 'per byte: {:02x} (%s)' % ([(p[1], p[2]['flags'], p[2]['width']) for p in fs[0].args] if fs else '?'))
    ctx.check('cols', 'hex:appends-to-accumulator', acc_ok, wbody, 'the accumulator is what is returned')
    wf = [c for c in wbody.calls if mir.method_name(c.name) == 'write_fmt']
    ctx.check('cols', 'hex:writes-into-accumulator', len(wf) == 1 and canon(wbody.op_expr(wf[0].args[0])) == acc, wbody, 'write!(output, ..)')
    # types of integer/hash columns
    bh = dict(prog.adt_fields('blockchain::proto::header::BlockHeader') or [])
    ctx.check('cols', 'types:header', [bh.get(x) for x in ('version', 'timestamp', 'bits', 'nonce')] == ['u32'] * 4 and 'sha256d::Hash' in bh.get('prev_hash', '') and 'sha256d::Hash' in bh.get('merkle_root', ''), None, 'header field types %s' % bh)
    to = dict(prog.adt_fields('blockchain::proto::tx::TxOutput') or [])
    ti = dict(prog.adt_fields('blockchain::proto::tx::TxInput') or [])
    ctx.check('cols', 'types:tx', to.get('value') == 'u64' and ti.get('seq_no') == 'u32' and to.get('script_pubkey') == 'std::vec::Vec<u8>' and ti.get('script_sig') == 'std::vec::Vec<u8>', None, 'value u64, seq_no u32, scripts Vec<u8>')
    bl = dict(prog.adt_fields('blockchain::proto::block::Block') or [])
    ctx.check('cols', 'types:size', bl.get('size') == 'u32', None, 'Block.size: %s' % bl.get('size'))


def rule_rows(ctx):
    prog = ctx.prog
    ob = prog.one('<callbacks::csvdump::CsvDump as callbacks::Callback>::on_block')
    ctx.touch(ob)
    nb = prog.one('<callbacks::csvdump::CsvDump as callbacks::Callback>::new')
    ctx.touch(nb)
    ret = canon(nb.ret_expr())
    wfile = dict(re.findall(r'(\w+_writer): create_writer\(\d+, join\(get_one\(a1, "dump-folder"\)\?, "(\w+)\.csv\.tmp"\)\)\?', ret))
    ctx.check('rows', 'writer-file-map', wfile == {'block_writer': 'blocks', 'tx_writer': 'transactions', 'txin_writer': 'tx_in', 'txout_writer': 'tx_out'}, nb, 'writers: %s' % wfile)
    # "exactly one row per ... item": the four files start empty — whatever the constructor opens, it opens truncating
    opens = [c for rb in prog.reachable_bodies([nb]) for c in rb.calls if re.search(r'^std::fs::(File::create|File::create_new|File::options|OpenOptions::)', c.name)]
    ctx.check('rows', 'writers-start-empty', bool(opens) and all(c.name == 'std::fs::File::create' for c in opens), opens[0] if opens else nb,
              'output files are opened with the truncating File::create',
              bad_detail='output files are opened with %s: rows left in a *.csv.tmp by an interrupted run would follow the new rows' % sorted(set(c.name for c in opens)))
    tx = 'each(a2.txs)'
    bh = 'a2.header.hash'
    th = '%s.hash' % tx
    exp = {
        'blocks': ('Block', ['a2', 'a3'], 0),
        'transactions': ('Hashed<blockchain::proto::tx::EvaluatedTx>', [tx, bh], 1),
        'tx_in': ('TxInput', ['each(%s.value.inputs)' % tx, th], 2),
        'tx_out': ('EvaluatedTxOut', ['each(enumerate(%s.value.outputs)).1' % tx, th, '(each(enumerate(%s.value.outputs)).0 as u32)' % tx], 2),
    }
    wr = [c for c in ob.calls if mir.method_name(c.name) == 'write_all']
    seen = {}
    for c in wr:
        w = canon(ob.op_expr(c.args[0])).replace('self.', '')
        fname = wfile.get(w)
        data = peel(ob.op_expr(c.args[1]))
        if data[0] != 'call' or mir.method_name(data[1]) != 'as_csv':
            ctx.violation('rows', 'write-not-a-row:%s' % w, c, 'writes %s' % canon(data)[:100])
            continue
        seen[fname] = seen.get(fname, 0) + 1
        e = exp.get(fname)
        if e is None:
            ctx.violation('rows', 'unknown-writer:%s' % w, c, '')
            continue
        args = [canon(a) for a in data[2]]
        okr = data[1].endswith('%s>::as_csv' % e[0]) and args == e[1] and ob.loop_depth(c.bb) == e[2]
        ctx.check('rows', 'row:%s' % fname, okr, c, '%s.csv <- %s(%s) at loop depth %d' % (fname, mir.short(data[1]), ', '.join(a[:50] for a in args), ob.loop_depth(c.bb)),
                  bad_detail='%s.csv receives %s(%s) at loop depth %d; expected renderer of %s with (%s) at depth %d' % (fname, data[1], ', '.join(args), ob.loop_depth(c.bb), e[0], ', '.join(e[1]), e[2]))
        g = [x for x in util.guards_at(ob, c.bb) if 'next(' not in x and not util.is_ok_guard(x)]
        ctx.check('rows', 'unconditional:%s' % fname, not g, c, 'row written for every item (guards %s)' % g)
        ctx.check('rows', 'checked:%s' % fname, util.result_is_consumed(ob, c), c, 'write result `?`-checked')
    ctx.check('rows', 'four-files-once-each', seen == {'blocks': 1, 'transactions': 1, 'tx_in': 1, 'tx_out': 1}, ob, 'write sites per file: %s' % seen)
    bad = [c for c in ob.calls if mir.method_name(c.name) in ('rev', 'skip', 'take', 'filter', 'step_by', 'par_iter', 'into_par_iter', 'sort', 'sort_by')]
    ctx.check('rows', 'forward-complete-loops', not bad, ob, 'adaptors: %s' % [mir.method_name(c.name) for c in bad])
    ctx.check('rows', 'loop-nest', sorted(len(l[1]) for l in ob.loops())[-1] > 0 and len(ob.loops()) == 3, ob, '%d loops (txs, inputs, outputs)' % len(ob.loops()))


def rule_totals(ctx):
    prog = ctx.prog
    ob = prog.one('<callbacks::csvdump::CsvDump as callbacks::Callback>::on_block')
    tx = 'each(a2.txs)'
    exp = {'tx_count': ('(self.tx_count + a2.tx_count.value)', 0), 'in_count': ('(self.in_count + %s.value.in_count.value)' % tx, 1), 'out_count': ('(self.out_count + %s.value.out_count.value)' % tx, 1)}
    got = {}
    for bb, ch, val, st in util.self_field_stores(ob):
        got.setdefault(ch[0], []).append((canon(val), ob.loop_depth(bb)))
    for f, e in exp.items():
        ctx.check('totals', 'counter:%s' % f, got.get(f) == [e], ob, 'self.%s: %s' % (f, got.get(f)),
                  bad_detail='self.%s updated as %s; expected %s once at loop depth %d' % (f, got.get(f), e[0], e[1]))
    ctx.check('totals', 'no-other-state', set(got) == set(exp), ob, 'fields written in on_block: %s' % sorted(got))
    oc = prog.one('<callbacks::csvdump::CsvDump as callbacks::Callback>::on_complete')
    msg = [f for f in mir.fmt_sites(oc, include_log=True) if 'transactions' in f.literal_skeleton and 'inputs' in f.literal_skeleton]
    okm = len(msg) == 1 and [canon(a[3]) for a in msg[0].args][2:] == ['self.tx_count', 'self.in_count', 'self.out_count']
    ctx.check('totals', 'completion-message', okm, msg[0].cs if msg else oc, 'summary prints %s' % ([canon(a[3]) for a in msg[0].args] if msg else '?'))
    if msg:
        sk = msg[0].literal_skeleton
        pos = [sk.index('transactions'), sk.index('inputs'), sk.index('outputs')]
        ctx.check('totals', 'labels-in-order', pos == sorted(pos), msg[0].cs, 'labels transactions/inputs/outputs precede their figures in order')
    # the counts equal the rows: construction loops push one element per count (C01.bind) and the tx list is a
    # length-preserving map/collect of the count-bounded read
    bn = prog.one('Block::new')
    ctx.check('totals', 'txs-length=tx_count', 'txs: collect(map(a5, closure:{closure#0}))' in canon(bn.ret_expr()), bn, 'Block.txs = map/collect over the RawTx vector read with tx_count')
    nw = prog.one('blockchain::proto::tx::EvaluatedTx::new')
    ctx.check('totals', 'outputs-length=out_count', 'outputs: collect(map(a5, closure:{closure#0}))' in canon(nw.ret_expr()) and 'inputs: a3' in canon(nw.ret_expr()), nw, 'outputs = map/collect over the outputs read with out_count; inputs passed through')
    # start state
    nb = prog.one('<callbacks::csvdump::CsvDump as callbacks::Callback>::new')
    ctx.check('totals', 'counters-start-at-0', 'tx_count: 0, in_count: 0, out_count: 0' in canon(nb.ret_expr()), nb, 'counters initialised to 0')


def run(ctx):
    ctx.trusted += ['sha256d (rust-bitcoin)', 'Display for integers and sha256d::Hash', 'byteorder', 'std BufWriter', 'rayon indexed collect (C13.par)']
    for r, f in (('wire', rule_wire), ('bind', rule_bind), ('compact', rule_compact), ('ser', rule_ser), ('cols', rule_cols), ('rows', rule_rows), ('totals', rule_totals)):
        ctx.guard(r, f)
    ctx.floor('wire', 37)
    ctx.floor('bind', 18)
    ctx.floor('compact', 21)
    ctx.floor('ser', 38)
    ctx.floor('cols', 38)
    ctx.floor('rows', 16)
    ctx.floor('totals', 9)
