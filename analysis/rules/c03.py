"""C03 — a block is read from the file and offset its index record names, wherever it is."""
import re

import mir
import util
from mir import canon, peel, Unrecognised

EXPLANATION = (
    "Static decision of the structural clauses of C03: (key) only LevelDB entries whose key starts with b'b' "
    "become records, the record hash is key[1..], key and value are the two buffers filled by the iterator's "
    "current(); (order) the i-th VarInt read of the record constructor, in dominance order over one cursor on "
    "the value, flows to version/height/status/tx_count/blk_index/data_offset (Bitcoin Core CDiskBlockIndex "
    "order) — file number and offset are both u64, a swap type-checks; (varint) the VarInt loop is Core's MSB "
    "base-128 with +1 carry (idiom match); (flow) the block fetch queries the index with the height parameter, "
    "the file map with that record's blk_index and reads at that record's data_offset, without narrowing "
    "casts; (seek) BlkFile::read_block seeks to SeekFrom::Start(offset-4) (absolute) before reading the u32le "
    "size and the block, all on the reader returned by open(); (files) the directory scan keeps a name iff it "
    "has prefix blk, suffix .dat and a middle that parses as u64, keyed by that number with that entry's "
    "path. Decides these for all layouts; LevelDB iteration and OS seek are trusted.")
RULE = ("instances = call sites/aggregates/guards of the loader, the record constructor, the block fetch, the "
        "file reader and the directory scan; non-trivial = provenance/order/guard obligation")

ORDER = ['version', 'height', 'status', 'tx_count', 'blk_index', 'data_offset']


def rule_key(ctx):
    import c04
    prog = ctx.prog
    b = c04.find_loader(ctx)
    ctx.touch(b)
    cur = [cs for cs in b.calls if mir.method_name(cs.name) == 'current' and 'leveldb' in cs.name]
    if len(cur) != 1:
        raise Unrecognised('key', 'expected one LdbIterator::current call')
    K = mir.strip_sites(peel(b.op_expr(cur[0].args[1])))
    V = mir.strip_sites(peel(b.op_expr(cur[0].args[2])))
    Ks = peel(b.op_expr(cur[0].args[1]))
    Vs = peel(b.op_expr(cur[0].args[2]))
    ctx.check('key', 'key-and-value-are-distinct-buffers', Ks != Vs, cur[0], 'current(&mut key, &mut value)')
    frm = [cs for cs in b.calls if mir.method_name(cs.name) == 'from' and cs.local and 'BlockIndexRecord' in cs.name]
    if len(frm) != 1:
        raise Unrecognised('key', 'expected one BlockIndexRecord::from call in the loader')
    f = frm[0]
    a0 = peel(b.op_expr(f.args[0]), calls=False)
    a1 = peel(b.op_expr(f.args[1]))
    # a0 = index(key, RangeFrom{1})
    ok0 = a0[0] == 'call' and mir.method_name(a0[1]) == 'index' and peel(a0[2][0]) == Ks and canon(a0[2][1]) == 'RangeFrom::RangeFrom{start: 1}'
    ctx.check('key', 'record-hash=key[1..]', ok0, f, 'BlockIndexRecord::from(%s, ..)' % canon(a0))
    ctx.check('key', 'record-fields-from-value', a1 == Vs, f, 'second argument is the value buffer')
    # guard: the key's first byte is b'b' (tested in place or through a private predicate, which is inlined)
    ks = canon(Ks)
    held = []
    for r in util.facts_to_rels(frozenset(('cond', prog.inline(fc[1]), fc[2]) if fc[0] == 'cond' else fc for fc in b.facts_at(f.bb))):
        c = util.crel(r)
        m = re.match(r'^unwrap\(first\((.*)\)\) == (\d+)$', c) or re.match(r'^first\((.*)\)\? == (\d+)$', c) or re.match(r'^(.*)\[0\] == (\d+)$', c)
        if m:
            held.append((m.group(1), int(m.group(2))))
    ctx.check('key', 'only-b-keys-become-records', any(k == ks for k, v in held), f, 'record construction dominated by a test of the first key byte: %s' % held)
    ctx.check('key', "prefix-is-b'b'", any(k == ks and v == 98 for k, v in held), f, "the first key byte is compared with b'b' (98): %s" % held)
    # the iteration visits every entry: while advance() { current(..) }
    adv = [cs for cs in b.calls if mir.method_name(cs.name) == 'advance']
    ctx.check('key', 'full-iteration', len(adv) == 1 and b.loop_depth(adv[0].bb) == 1 and b.dominates(adv[0].bb, cur[0].bb), b, 'while iter.advance() { iter.current(..) }')
    # the hash: from_byte_array(expect(try_into(a1)))
    r = prog.one('BlockIndexRecord::from')
    rv = canon(r.ret_expr())
    ctx.check('key', 'block_hash-from-key-bytes', 'block_hash: try_into(a1)?' in rv, r, 'block_hash built from the key slice')


def rule_order(ctx):
    prog = ctx.prog
    r = prog.one('BlockIndexRecord::from')
    ctx.touch(r)
    reads = [cs for cs in r.calls if mir.method_name(cs.name) == 'read_varint']
    reads.sort(key=lambda c: len(r.dominators()[c.bb]))
    for x, y in zip(reads, reads[1:]):
        if not r.dominates(x.bb, y.bb):
            raise Unrecognised('order', 'VarInt reads are not totally ordered')
    # all on one cursor over the value parameter
    curs = set(mir.strip_sites(peel(r.op_expr(c.args[0]))) for c in reads)
    ctx.check('order', 'single-cursor-over-value', len(curs) == 1 and canon(list(curs)[0]) == 'new(a2)', r, 'all reads on Cursor::new(values)')
    # the aggregate
    agg = None
    for i in r.live:
        for st in r.blocks[i]['stmts']:
            if st['k'] == 'assign' and st['rv']['k'] == 'aggr' and st['rv'].get('adt', '').endswith('BlockIndexRecord'):
                agg = r.rvalue_expr(st['rv'])
    if agg is None:
        raise Unrecognised('order', 'record aggregate not found')
    fields = dict(agg[3])
    site_index = {c.site: i for i, c in enumerate(reads)}
    for fld in ORDER:
        v = peel(fields.get(fld, ('unknown', '')), calls=False)
        idx = site_index.get(v[3]) if v[0] == 'call' else None
        ctx.check('order', 'varint[%d]->%s' % (ORDER.index(fld), fld), idx == ORDER.index(fld), r,
                  'field %s <- VarInt #%s' % (fld, idx),
                  bad_detail='field %s is filled from VarInt #%s of the record, Core serialises it as #%d' % (fld, idx, ORDER.index(fld)))
    ctx.check('order', 'six-reads', len(reads) == 6, r, '%d VarInt reads' % len(reads))


def rule_varint(ctx):
    prog = ctx.prog
    v = prog.one('index::read_varint')
    ctx.touch(v)
    rets = [(canon(v.rvalue_expr(d[3])), util.guards_at(v, d[1])) for d in v.ret_defs() if d[0] == 'assign']
    ok = [x for x in rets if x[0].startswith('Result::Ok')]
    acc = 'phi(((loopvar << 7) | ((read_u8(a1)? & 127) as u64)) | (loopvar + 1) | 0)'
    alt = 'phi(((loopvar * 128) + ((read_u8(a1)? & 127) as u64)) | (loopvar + 1) | 0)'
    good = len(ok) == 1 and ok[0][0] in ('Result::Ok{0: %s}' % acc, 'Result::Ok{0: %s}' % alt)
    ctx.check('varint', 'msb-base128-with-carry', good, v, 'read_varint = %s' % (ok[0][0] if ok else rets))
    if ok:
        ctx.check('varint', 'stop-when-high-bit-clear', '(read_u8(a1)? & 128) <= 0' in ok[0][1], v, 'returns when (byte & 0x80) == 0')
    # the +1 happens only on the continuation edge
    plus = []
    for l, ds in v.defs().items():
        for d in ds:
            if d[0] == 'assign' and canon(v.rvalue_expr(d[3])).endswith('+ 1)') and 'loopvar' in canon(v.rvalue_expr(d[3])):
                plus.append(util.guards_at(v, d[1]))
    ctx.check('varint', 'carry-on-continuation', len(plus) == 1 and any(g == '0 < (read_u8(a1)? & 128)' for g in plus[0]), v, '+1 under %s' % plus)


def rule_flow(ctx):
    prog = ctx.prog
    g = prog.one('ChainStorage::get_block')
    ctx.touch(g)
    rec = 'get(self.chain_index, a2)?'
    ent = 'get_mut(self.blk_files, %s.blk_index)?' % rec
    rd = [cs for cs in g.calls if mir.method_name(cs.name) == 'read_block']
    ctx.check('flow', 'single-read', len(rd) == 1, g, '%d read_block call(s)' % len(rd))
    for cs in rd:
        a = [canon(x) for x in g.arg_exprs(cs)]
        ctx.check('flow', 'file-of-this-record', a[0] == ent, cs, 'reader = %s' % a[0],
                  bad_detail='block read from %s, expected the blk file named by the record of this height' % a[0])
        ctx.check('flow', 'offset-of-this-record', a[1] == '%s.data_offset' % rec, cs, 'offset = %s' % a[1],
                  bad_detail='block read at %s, expected this record\'s data_offset' % a[1])
        ctx.check('flow', 'coin-of-storage', a[2] == 'self.coin', cs, 'coin = %s' % a[2])
    # index accessor is a plain map lookup by height
    acc = prog.one('ChainIndex::get')
    ctx.touch(acc)
    ctx.check('flow', 'index-lookup-by-height', canon(acc.ret_expr()) == 'get(self.block_index, a2)', acc, canon(acc.ret_expr()))
    # types: heights, file numbers and offsets stay u64
    adt = prog.adt_fields('blockchain::parser::index::BlockIndexRecord')
    tys = dict(adt or [])
    ctx.check('flow', 'u64-widths', tys.get('blk_index') == 'u64' and tys.get('data_offset') == 'u64' and tys.get('height') == 'u64', g,
              'blk_index/data_offset/height are u64')
    # Ok(None) only when the index has no record
    rets = {}
    for d in g.ret_defs():
        if d[0] == 'assign':
            rets[canon(g.rvalue_expr(d[3]))] = util.guards_at(g, d[1])
    ctx.check('flow', 'none-iff-not-indexed', rets.get('Result::Ok{0: Option::None{}}') == ['get(self.chain_index, a2) is None'], g, 'Ok(None) under %s' % rets.get('Result::Ok{0: Option::None{}}'))
    okk = [k for k in rets if k.startswith('Result::Ok{0: Option::Some')]
    ctx.check('flow', 'delivers-the-read-block', okk == ['Result::Ok{0: Option::Some{0: read_block(%s, %s.data_offset, self.coin)?}}' % (ent, rec)], g, '%s' % okk)
    # the file map is the one built by the directory scan
    st = prog.one('ChainStorage::new')
    ctx.touch(st)
    r = canon(st.ret_expr())
    ctx.check('flow', 'storage-construction', 'blk_files: from_path(a1.blockchain_dir)?' in r and 'chain_index: new(a1)?' in r, st, r[-160:])


def rule_seek(ctx):
    prog = ctx.prog
    rb = prog.one('BlkFile::read_block')
    ctx.touch(rb)
    sk = [cs for cs in rb.calls if mir.method_name(cs.name) == 'seek']
    sz = [cs for cs in rb.calls if mir.method_name(cs.name).startswith('read_u')]
    rd = [cs for cs in rb.calls if mir.method_name(cs.name) == 'read_block']
    if len(sk) > 1 and len(sz) == 1:
        # several seeks: the one that positions the size read is the last one before it (it must be absolute, so
        # earlier ones cannot matter; a relative last seek depends on them and on the buffer, and is reported below)
        before = [c for c in sk if rb.dominates(c.bb, sz[0].bb)]
        last = [c for c in before if all(o is c or rb.dominates(o.bb, c.bb) for o in before)]
        if len(before) == len(sk) and len(last) == 1:
            sk = last
    if len(sk) != 1 or len(sz) != 1 or len(rd) != 1:
        raise Unrecognised('seek', 'expected seek, size read and block read in BlkFile::read_block (%d/%d/%d)' % (len(sk), len(sz), len(rd)))
    sk, sz, rd = sk[0], sz[0], rd[0]
    rdr = 'open(self)?'
    a = [canon(x) for x in rb.arg_exprs(sk)]
    ctx.check('seek', 'absolute-seek-to-offset-4', a == [rdr, 'SeekFrom::Start{0: (a2 - 4)}'], sk, 'seek(%s)' % ', '.join(a),
              bad_detail='seek(%s): must be SeekFrom::Start(offset - 4) on the opened reader (absolute, independent of the previous position)' % ', '.join(a))
    ctx.check('seek', 'seek-checked', util.result_is_consumed(rb, sk), sk, 'seek result is `?`-checked')
    ctx.check('seek', 'size-is-u32le-after-seek', mir.method_name(sz.name) == 'read_u32' and any('LittleEndian' in x for x in sz.gargs) and rb.dominates(sk.bb, sz.bb) and canon(rb.op_expr(sz.args[0])) == rdr, sz,
              '%s::<%s>' % (mir.method_name(sz.name), ','.join(sz.gargs)))
    a = [canon(x) for x in rb.arg_exprs(rd)]
    ctx.check('seek', 'block-after-size', rb.dominates(sz.bb, rd.bb) and a == [rdr, 'read_u32(%s)?' % rdr, 'a3'], rd, 'read_block(%s)' % ', '.join(a))
    # nothing else moves the reader between seek and the block read
    mids = [cs for cs in rb.calls if rb.dominates(sk.bb, cs.bb) and rb.dominates(cs.bb, rd.bb) and cs not in (sk, sz, rd) and
            cs.args and canon(rb.op_expr(cs.args[0])) == rdr]
    ctx.check('seek', 'no-other-reader-use', not mids, rb, 'no other call on the reader between seek and read: %s' % [c.name for c in mids])
    op = [cs for cs in rb.calls if mir.method_name(cs.name) == 'open']
    ctx.check('seek', 'reader-from-open', len(op) == 1 and rb.dominates(op[0].bb, sk.bb), rb, 'reader = self.open()?')


def rule_files(ctx):
    prog = ctx.prog
    fp = prog.one('BlkFile::from_path')
    ctx.touch(fp)
    ins = [cs for cs in fp.calls if mir.method_name(cs.name) == 'insert' and fp.loop_depth(cs.bb) >= 1]
    if len(ins) != 1:
        raise Unrecognised('files', 'expected one insertion in the directory scan')
    cs = ins[0]
    path = 'resolve_path(each(read_dir(a1)?)?)?'
    name = 'to_str(file_name(%s)?)?' % path
    a = [canon(x) for x in fp.arg_exprs(cs)]
    idx = 'parse_blk_index(%s, "blk", ".dat")?' % name
    ctx.check('files', 'keyed-by-parsed-number', a[1] == idx, cs, 'key = %s' % a[1][:90])
    ctx.check('files', 'value-is-this-entrys-path', a[2] == 'new(%s, read_xor_key(join(a1, "xor.dat"))?)' % path, cs, 'value = %s' % a[2])
    g = util.guards_at(fp, cs.bb)
    ctx.check('files', 'only-regular-files', 'is_file(%s)' % path in g, cs, 'guard is_file')
    ctx.check('files', 'only-when-name-parses', 'parse_blk_index(%s, "blk", ".dat") is Some' % name in g, cs, 'guard parse_blk_index(..) is Some')
    pb = prog.one('BlkFile::parse_blk_index')
    ctx.touch(pb)
    # outcomes per path: Some(n) exactly when prefix and suffix match and the middle parses; None otherwise
    mid = 'a1[Range::Range{start: len(a2), end: (len(a1) - len(a3))}]'
    outs = sorted(set((canon(pb.rvalue_expr(d[3])) if d[0] == 'assign' else canon(pb.call_expr(d[2])), tuple(g))
                      for d in pb.ret_defs() for g in util.path_guard_sets(pb, d[1])))
    some = [o for o in outs if o[0].startswith('Option::Some')]
    none = [o for o in outs if o[0] == 'Option::None{}']
    other = [o for o in outs if o not in some and o not in none]
    ok_some = some == [('Option::Some{0: parse(%s)?}' % mid, ('ends_with(a1, a3)', 'parse(%s) is Ok' % mid, 'starts_with(a1, a2)'))]
    ctx.check('files', 'prefix-suffix-middle', ok_some and not other, pb, 'parse_blk_index = %s' % outs)
    pr = [c for c in pb.calls if mir.method_name(c.name) == 'parse']
    ctx.check('files', 'middle-parses-as-u64', len(pr) == 1 and pr[0].gargs and pr[0].gargs[-1] == 'u64', pb, 'str::parse::<%s>' % (pr[0].gargs[-1] if pr else '?'))
    exp_none = sorted([('!starts_with(a1, a2)',), ('!ends_with(a1, a3)', 'starts_with(a1, a2)'), ('ends_with(a1, a3)', 'parse(%s) is Err' % mid, 'starts_with(a1, a2)')])
    ctx.check('files', 'other-names-skipped', sorted(o[1] for o in none) == exp_none, pb, 'None on %s' % [o[1] for o in none])
    # unreadable directory entries are skipped with a warning, not fatal and not inserted
    scan = [c for c in fp.calls if mir.method_name(c.name) == 'read_dir']
    ctx.check('files', 'scan-of-blockchain-dir', len(scan) == 1 and canon(fp.op_expr(scan[0].args[0])) == 'a1', fp, 'read_dir(path)')


def run(ctx):
    ctx.trusted += ['rusty-leveldb iteration', 'seek_bufread::BufReader seek semantics (SeekFrom::Start is absolute)', 'byteorder']
    for r, f in (('key', rule_key), ('order', rule_order), ('varint', rule_varint), ('flow', rule_flow), ('seek', rule_seek), ('files', rule_files)):
        ctx.guard(r, f)
    ctx.floor('key', 7)
    ctx.floor('order', 8)
    ctx.floor('varint', 3)
    ctx.floor('flow', 9)
    ctx.floor('seek', 6)
    ctx.floor('files', 8)
