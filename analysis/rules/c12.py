"""C12 — AuxPoW headers are skipped exactly, leaving block hash and txs unaffected."""
import re

import mir
import util
import wire
from mir import canon, peel, Unrecognised

EXPLANATION = (
    "Static decision of the structural clauses of C12: (table) aux_pow_activation_version is Some(0x10101) for "
    "Namecoin, Some(0x620102) for Dogecoin and the trait default None for the other six coins, and reaches "
    "CoinType unchanged; (threshold) the AuxPoW reader call in read_block is dominated exactly by "
    "`activation is Some(v)` and `v <= header.version`, on every other edge nothing is read between the header "
    "and the tx count; (grammar) the section's wire term, extracted from the reader bodies in reverse "
    "post-order with loop bounds bound to the preceding CompactSize, is tx h32 branch branch header with "
    "branch = CompactSize, CompactSize x h32, u32le; (isolation) the block hash is double_sha256 of the header "
    "read before the section, no field of the extension flows into the header, the tx list, a hashed term or "
    "a CSV column. Decides these for all AuxPoW sections and versions.")
RULE = ("instances = coin constants, dominating guards of the section reader, grammar items in order with "
        "bounds, flows out of the extension; non-trivial = constant/guard/order obligation")

ACT = {'Namecoin': 0x10101, 'Dogecoin': 0x620102}
COINS = ['Bitcoin', 'TestNet3', 'Namecoin', 'Litecoin', 'Dogecoin', 'Myriadcoin', 'Unobtanium', 'NoteBlockchain']


def rule_table(ctx):
    prog = ctx.prog
    impls = {b.impl_self.split('::')[-1]: b for b in prog.trait_method_impls('blockchain::parser::types::Coin', 'aux_pow_activation_version') if b.impl_self}
    default = [b for b in prog.bodies.values() if b.trait_default_of == 'blockchain::parser::types::Coin' and b.path.endswith('aux_pow_activation_version')]
    ctx.check('table', 'trait-default-none', len(default) == 1 and canon(default[0].ret_expr()) == 'Option::None{}', default[0] if default else None, 'Coin::aux_pow_activation_version default = None')
    coins = [i['self_ty'].split('::')[-1] for i in prog.impls if i['trait'] and i['trait'].endswith('types::Coin')]
    ctx.check('table', 'eight-coins', sorted(coins) == sorted(COINS), None, 'Coin impls: %s' % sorted(coins))
    for coin in coins:
        b = impls.get(coin)
        if coin in ACT:
            v = None
            if b is not None:
                ctx.touch(b)
                m = re.match(r'^Option::Some\{0: (\d+)\}$', canon(b.ret_expr()))
                v = int(m.group(1)) if m else None
            ctx.check('table', 'activation:%s' % coin, v == ACT[coin], b, '%s activation version %s' % (coin, hex(v) if v is not None else None),
                      bad_detail='%s AuxPoW activation version is %s, published value is %s' % (coin, hex(v) if v is not None else 'None', hex(ACT[coin])))
        else:
            ctx.check('table', 'no-auxpow:%s' % coin, b is None, b, '%s uses the default (no AuxPoW)' % coin,
                      bad_detail='%s overrides aux_pow_activation_version: it has no AuxPoW' % coin)
    frm = prog.one('<blockchain::parser::types::CoinType as std::convert::From<T>>::from')
    ctx.check('table', 'CoinType-carries-it', 'aux_pow_activation_version: aux_pow_activation_version(a1)' in canon(frm.ret_expr()), frm, 'CoinType.aux_pow_activation_version = coin.aux_pow_activation_version()')


def rule_threshold(ctx):
    prog = ctx.prog
    rb = prog.one('BlockchainRead::read_block')
    ctx.touch(rb)
    items, labels = wire.grammar(rb)
    sh = wire.shape(items)
    names = [i[1] for i in sh]
    ctx.check('threshold', 'block-read-order', names == ['read_block_header', 'read_aux_pow_extension', 'read_from', 'read_txs'], rb, 'read_block reads %s' % names)
    aux = [i for i in sh if i[1] == 'read_aux_pow_extension']
    if len(aux) != 1:
        raise Unrecognised('threshold', 'AuxPoW reader call not found')
    g = aux[0][6]
    exp = ['a3.aux_pow_activation_version? <= read_block_header#0(self)?.version', 'a3.aux_pow_activation_version is Some']
    ctx.check('threshold', 'section-iff-version>=activation', sorted(g) == sorted(exp), aux[0] and items[1][7], 'AuxPoW section read under %s' % g,
              bad_detail='AuxPoW section read under %s; required exactly: activation is Some(v) and v <= header.version' % g)
    # nothing else conditional: the other reads are unguarded
    for i in sh:
        if i[1] != 'read_aux_pow_extension':
            ctx.check('threshold', 'unconditional:%s' % i[1], i[6] == [] and i[5] == [], rb, '%s is read on every path' % i[1])
    # all on the same reader
    ctx.check('threshold', 'same-reader', all(i[3] == 'self' for i in sh), rb, 'all reads on self')
    # tx count binds the tx loop
    txs = [i for i in sh if i[1] == 'read_txs'][0]
    ctx.check('threshold', 'tx-count-binds-tx-list', txs[4][0] == 'read_from#2(self)?.value', rb, 'read_txs(%s)' % txs[4][0])
    # the block is built from those reads
    ret = wire.ret_canon(rb, labels)
    okr = 'new(a2, read_block_header#0(self)?, phi(Option::None{} | Option::Some{0: read_aux_pow_extension#1(self, a3.version_id)?}), read_from#2(self)?, read_txs#3(self, read_from#2(self)?.value, a3.version_id)?)' in ret
    ctx.check('threshold', 'block-built-from-reads', okr, rb, 'Block::new(size, header, aux, tx_count, txs)')


def rule_grammar(ctx):
    prog = ctx.prog
    ax = prog.one('BlockchainRead::read_aux_pow_extension')
    ctx.touch(ax)
    items, labels = wire.grammar(ax)
    # The section is skipped, not interpreted: what must be right is the number of bytes consumed.
    # So the *multiset* of items is compared, not their order (each item is self-delimiting or fixed-size).
    seq = sorted((i[1], tuple(i[4]), tuple(i[5]), tuple(i[6])) for i in wire.shape(items))
    exp = sorted([('read_tx', ('a2',), (), ()), ('read_256hash', (), (), ()), ('read_merkle_branch', (), (), ()),
                  ('read_merkle_branch', (), (), ()), ('read_block_header', (), (), ())])
    ctx.check('grammar', 'section={tx,h32,branch,branch,header}', seq == exp, ax, 'AuxPoW section consumes %s' % [s[0] for s in seq],
              bad_detail='AuxPoW section consumes %s; the merged-mining spec has one coinbase tx, one parent hash, two merkle branches and one parent header (each unconditional, none in a loop)' % [(s[0], s[2], s[3]) for s in seq])
    mb = prog.one('BlockchainRead::read_merkle_branch')
    ctx.touch(mb)
    # grammar of a branch: count (CompactSize), count x h32, mask (u32 LE); the hash loop may be a for loop or a
    # lazily mapped range that is collected (wire.grammar flattens both to the same items)
    items, labels = wire.grammar(mb)
    sh = wire.shape(items)
    outer = sorted((i[1], i[2], tuple(i[4]), tuple(i[5])) for i in sh if not i[5])
    ctx.check('grammar', 'branch={count,mask-u32le}', outer == sorted([('read_from', None, (), ()), ('read_u32', 'LittleEndian', (), ())]), mb, 'merkle branch outer reads %s' % outer)
    cnt = [i[0] for i in items if i[1] == 'read_from']
    inner = [i for i in sh if i[5]]
    dom = 'Range::Range{start: 0, end: read_from#%s(self)?.value}' % (cnt[0] if cnt else '?')
    ctx.check('grammar', 'branch-hashes-bound-by-count', len(inner) == 1 and list(inner[0][5]) == [dom], mb, 'hashes are read for 0..count: %s' % [i[5] for i in inner])
    ctx.check('grammar', 'branch-item=h32', len(inner) == 1 and inner[0][1] == 'read_256hash' and not inner[0][4] and not [g for g in inner[0][6] if 'next(' not in g], mb,
              'each branch item is one 32-byte hash: %s' % [(i[1], i[6]) for i in inner])
    # every hash read is checked: its error ends the read (the `?` inside the loop, or collect::<Result<..>>()?)
    hr = [i[7] for i in items if i[1] == 'read_256hash']
    okall = bool(hr)
    for c in hr:
        if c.body is mb:
            okall = okall and util.result_is_consumed(mb, c)
        else:
            coll = [c2 for c2 in mb.calls if mir.method_name(c2.name) == 'collect']
            okall = okall and len(coll) == 1 and util.result_is_consumed(mb, coll[0]) and 'rayon' not in coll[0].name and 'Result<' in ' '.join(coll[0].gargs)
    ctx.check('grammar', 'all-hashes-read', okall, mb, 'the hash loop is driven to completion and its errors are propagated')
    h = prog.one('BlockchainRead::read_256hash')
    ctx.touch(h)
    ex = [c for c in h.calls if mir.method_name(c.name) == 'read_exact']
    ctx.check('grammar', 'h32=read_exact-32', len(ex) == 1 and h.local_ty(0).startswith('std::result::Result<[u8; 32]'), h, 'read_256hash = read_exact into [u8; 32]')


def rule_isolation(ctx):
    prog = ctx.prog
    # fields of the extension are never read anywhere in the crate (outside Debug impls)
    uses = []
    for b in prog.bodies.values():
        if b.impl_trait and b.impl_trait.endswith('fmt::Debug'):
            continue
        for i, p in b.all_places():
            for el in p['p']:
                if el['k'] == 'field' and (el['name'] == 'aux_pow_extension' or (el.get('of') or '').endswith('AuxPowExtension')):
                    uses.append((b.path, i, el['name']))
    ctx.check('isolation', 'extension-never-read', not uses, None, 'reads of Block.aux_pow_extension / AuxPowExtension fields: %s' % uses,
              bad_detail='the AuxPoW extension flows into other code: %s' % uses)
    bn = prog.one('Block::new')
    ctx.touch(bn)
    r = canon(bn.ret_expr())
    ctx.check('isolation', 'hash-over-header-only', 'header: double_sha256(a2)' in r and 'aux_pow_extension: a3' in r, bn, 'Block.header = Hashed::double_sha256(header parameter)')
    rb = prog.one('BlockchainRead::read_block')
    items, labels = wire.grammar(rb)
    order = [i[1] for i in items]
    ctx.check('isolation', 'header-read-before-section', order.index('read_block_header') < order.index('read_aux_pow_extension'), rb, 'header is complete before the section is read')
    # the header passed to Block::new is the first read, not the parent header inside the section
    ret = wire.ret_canon(rb, labels)
    ctx.check('isolation', 'header-is-first-read', 'new(a2, read_block_header#0(self)?' in ret, rb, 'Block::new receives header #0')


def run(ctx):
    ctx.trusted += ['merged-mining specification (section layout)', 'C01.wire for the tx and header non-terminals']
    for r, f in (('table', rule_table), ('threshold', rule_threshold), ('grammar', rule_grammar), ('isolation', rule_isolation)):
        ctx.guard(r, f)
    ctx.floor('table', 11)
    ctx.floor('threshold', 8)
    ctx.floor('grammar', 6)
    ctx.floor('isolation', 4)
