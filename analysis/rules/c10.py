"""C10 — exit status 0 means complete, final-named output; any failure leaves none."""
import re

import mir
import util
from mir import peel, show, Unrecognised, field_chain, canon

EXPLANATION = (
    "Static decision of the structural clauses of C10: (flush) typestate analysis over the CFG of every "
    "file-producing callback: at each fs::rename and at every Ok-return of on_complete, every buffering "
    "writer field whose file is involved must have been flushed with a checked result after its last "
    "write, on all paths (a BufWriter dropped unflushed loses data silently); (names) files are created "
    "only as <dump_folder>/<x>.tmp by the callback constructors, the set of rename sources equals the set "
    "of created names, destinations never end in .tmp, renames occur only in on_complete; (results) no "
    "Result returned by any call in the crate is dropped; (readfail) the Err edge of the block fetch in "
    "the driver can only reach process::exit(non-zero) and never on_complete, and logs the height; (main) "
    "the Err edges of start()/ChainStorage::new in main reach process::exit(non-zero). Decides these for "
    "every fault point; does not run the binary.")
RULE = ("instances = (callback, writer, rename-or-return site) triples, create/rename sites, every "
        "Result-returning call site in the crate, error edges; non-trivial = carries a path or provenance obligation")

CALLBACK = 'callbacks::Callback'
WRITE_METHODS = ('write_all', 'write', 'write_fmt', 'write_vectored', 'write_all_vectored', 'write_str')


def writer_fields(prog, self_ty):
    out = []
    flds = prog.adt_fields(self_ty) or []
    for nme, ty in flds:
        if re.search(r'io::(BufWriter|LineWriter)<', ty):
            out.append(nme)
    return out


def recv_field(body, cs):
    """name of the self field a method call is applied to (receiver = &mut self.<f>), else None"""
    if not cs.args:
        return None
    r = body.op_expr(cs.args[0])
    root, ch = field_chain(r)
    if root[0] == 'param' and root[2] == 1 and len(ch) >= 1:
        return ch[0]
    return None


def flush_checked(body, cs):
    """flush() whose Result reaches `?`, unwrap/expect or a match"""
    d = cs.dest
    if d['p']:
        return False
    for bb, idx, how in body.real_uses(d['l']):
        if idx == 'term':
            t = body.blocks[bb]['term']
            if t['k'] == 'call':
                c2 = body.call_at[bb]
                if re.search(r'Try>::branch$|::unwrap$|::expect$', c2.name):
                    return True
            if t['k'] == 'switch':
                return True
        else:
            st = body.blocks[bb]['stmts'][idx]
            if st['k'] == 'assign' and st['rv']['k'] == 'discr':
                return True
            if st['k'] == 'assign' and st['place']['l'] == 0:
                return True  # returned to the caller (who must check; C10.results covers it)
    return False


def analyse_body(prog, body, writers, entry_state, summaries, depth=0):
    """forward may-analysis; returns state_in per block: dict writer -> 'dirty'|'clean'"""
    nodes = sorted(body.reachable())
    st_in = {b: None for b in nodes}
    st_in[0] = dict(entry_state)

    def transfer(b, s):
        s = dict(s)
        cs = body.call_at.get(b)
        if cs is None:
            return s
        f = recv_field(body, cs)
        if f in writers:
            if cs.method == 'flush' or cs.is_('~::flush$'):
                s[f] = 'clean' if flush_checked(body, cs) else 'dirty'
            elif (cs.method in WRITE_METHODS) or cs.is_('~::write(_all|_fmt|_str)?$'):
                s[f] = 'dirty'
            elif cs.is_('~::(get_ref|capacity|buffer)$'):
                pass
            else:
                s[f] = 'dirty'  # unknown use of the writer: assume it buffers
        else:
            # call on self itself -> callee summary
            for t in prog.targets(cs):
                if cs.args and t.arg_count >= 1:
                    r = peel(body.op_expr(cs.args[0]))
                    if r[0] == 'param' and r[2] == 1 and t.impl_self == body.impl_self and depth < 3:
                        summ = summarise(prog, t, writers, summaries, depth + 1)
                        for w in writers:
                            if summ[w] == 'flushes':
                                s[w] = 'clean'
                            elif summ[w] == 'writes':
                                s[w] = 'dirty'
        return s

    changed = True
    while changed:
        changed = False
        for b in nodes:
            if st_in[b] is None:
                continue
            out = transfer(b, st_in[b])
            for s2 in body.succ[b]:
                cur = st_in[s2]
                if cur is None:
                    st_in[s2] = dict(out)
                    changed = True
                else:
                    new = {w: ('dirty' if 'dirty' in (cur[w], out[w]) else 'clean') for w in writers}
                    if new != cur:
                        st_in[s2] = new
                        changed = True
    return st_in, transfer


def summarise(prog, body, writers, summaries, depth):
    """effect of a helper method on each writer: 'flushes' (clean on every normal return from a dirty
    entry), 'writes' (may leave it dirty from a clean entry) or 'none'."""
    key = body.path
    if key in summaries:
        return summaries[key]
    summaries[key] = {w: 'none' for w in writers}  # recursion guard
    res = {}
    for w in writers:
        s_d, _ = analyse_body(prog, body, writers, {x: 'dirty' for x in writers}, summaries, depth)
        s_c, tr = analyse_body(prog, body, writers, {x: 'clean' for x in writers}, summaries, depth)
        exits = body.exits()
        if exits and all(s_d[e] is not None and s_d[e][w] == 'clean' for e in exits):
            res[w] = 'flushes'
        elif any(s_c[e] is not None and s_c[e][w] == 'dirty' for e in exits):
            res[w] = 'writes'
        else:
            res[w] = 'none'
    summaries[key] = res
    return res


def ok_return_blocks(body):
    """blocks that assign `_0 = Result::Ok(..)` (success return value)"""
    out = []
    for d in body.ret_defs():
        if d[0] == 'assign' and d[3]['k'] == 'aggr' and d[3].get('variant') == 'Ok':
            out.append(d[1])
    return out


def created_files(prog):
    """all File::create / OpenOptions::open sites with the expanded path expressions"""
    out = []
    for cs in prog.all_calls():
        if cs.is_('std::fs::File::create', 'std::fs::File::create_new', 'std::fs::OpenOptions::open', 'std::fs::write',
                  'std::fs::File::options', 'std::fs::create_dir', 'std::fs::create_dir_all', 'std::fs::copy'):
            b = cs.body
            arg = b.op_expr(cs.args[-1] if cs.is_('std::fs::OpenOptions::open') else cs.args[0])
            for b2, e in util.expand_params(prog, b, arg):
                out.append((cs, b2, e))
    return out


def rule_flush(ctx):
    prog = ctx.prog
    n_cb = 0
    for ob in prog.trait_method_impls(CALLBACK, 'on_complete'):
        self_ty = ob.impl_self
        writers = writer_fields(prog, self_ty)
        if not writers:
            continue
        n_cb += 1
        ctx.touch(ob)
        short = self_ty.split('::')[-1]
        # which writers are written anywhere in this impl?
        written = set()
        for b in prog.bodies.values():
            if b.impl_self == self_ty:
                for cs in b.calls:
                    f = recv_field(b, cs)
                    if f in writers and ((cs.method in WRITE_METHODS) or cs.is_('~::write(_all|_fmt|_str)?$')):
                        written.add(f)
        entry = {w: ('dirty' if w in written else 'clean') for w in writers}
        # writer <-> tmp file name (from the constructor)
        w_names = {}
        for cb in prog.trait_method_impls(CALLBACK, 'new'):
            if cb.impl_self != self_ty:
                continue
            for i in cb.live:
                for stmt in cb.blocks[i]['stmts']:
                    if stmt['k'] == 'assign' and stmt['rv']['k'] == 'aggr' and stmt['rv'].get('adt') == self_ty:
                        e = cb.rvalue_expr(stmt['rv'])
                        for fn_, v in e[3]:
                            if fn_ in writers:
                                v2 = prog.inline(v, 2)
                                names = None
                                for c in mir.calls_in(v2, lambda nme: nme.endswith('fs::File::create')):
                                    names = util.string_values(prog, cb, c[2][0])
                                w_names[fn_] = names
        summaries = {}
        st_in, transfer = analyse_body(prog, ob, writers, entry, summaries)
        renames = [cs for cs in ob.calls if cs.is_('std::fs::rename')]
        sites = [('rename', cs.bb, cs) for cs in renames] + [('ok-return', b, None) for b in ok_return_blocks(ob)]
        for kind, bb, cs in sites:
            if st_in.get(bb) is None:
                continue
            st = st_in[bb]
            src_names = None
            if cs is not None:
                src_names = util.string_values(prog, ob, ob.op_expr(cs.args[0]))
            for w in writers:
                # every writer of the callback must be flushed before ANY rename: a later failing flush must
                # not leave earlier files under their final names ("leaves no final-named file from that run")
                if st[w] == 'clean':
                    ctx.ok('flush', '%s:%s:%s' % (short, w, kind), (ob, bb),
                           'writer self.%s is flushed (checked) on every path to this %s' % (w, kind))
                else:
                    # witness: a path from entry to the site that never passes a checked flush of w
                    flush_bbs = [c.bb for c in ob.calls if recv_field(ob, c) == w and (c.method == 'flush' or c.is_('~::flush$')) and flush_checked(ob, c)]
                    p = ob.shortest_path(0, [bb], avoid=flush_bbs)
                    ctx.violation('flush', '%s:%s:%s' % (short, w, kind), (ob, bb),
                                  'buffering writer self.%s may still hold unwritten data at this %s: no checked flush() '
                                  'after its last write on some path; BufWriter::drop ignores write errors, so the '
                                  'process can exit 0 with a truncated final-named file' % (w, kind),
                                  witness=ob.fmt_path(p) if p else None)
    if n_cb == 0:
        raise Unrecognised('flush', 'no callback with buffering writer fields found')


def rule_names(ctx):
    prog = ctx.prog
    created = created_files(prog)
    created_names = set()
    for cs, b2, e in created:
        ctx.touch(cs.body, b2)
        names = util.string_values(prog, b2, e)
        root_ok = False
        # <dump_folder>.join(<const>)
        j = peel(e, calls=False)
        while j[0] == 'call' and mir.is_transparent_call(j[1]):
            j = peel(j[2][0], calls=False)
        if j[0] == 'call' and re.search(r'Path(Buf)?::join', j[1]):
            base = peel(j[2][0])
            root_ok = 'dump-folder' in show(base) or mir.contains(base, lambda x: x[0] == 'str' and x[1] == 'dump-folder') or \
                mir.contains(base, lambda x: x[0] == 'field' and x[2] == 'dump_folder')
        in_ctor = b2.path.endswith('::new') and b2.impl_trait and b2.impl_trait.endswith(CALLBACK)
        ctx.check('names', 'create-truncates:%s' % cs.body.path, cs.name == 'std::fs::File::create', cs,
                  'tmp file opened with the truncating File::create',
                  bad_detail='tmp file opened with %s: content left behind by an earlier aborted run survives, so an exit-0 run can produce '
                  'a final-named file that is not identical to an undisturbed run' % cs.name)
        if names is None:
            ctx.violation('names', 'create-path-not-constant:%s' % b2.path, cs, 'created path %s is not <dump_folder>/<const>' % show(e)[:160])
            continue
        for nm in sorted(names):
            created_names.add((b2.impl_self, nm))
            ctx.check('names', 'create:%s:%s' % ((b2.impl_self or b2.path).split('::')[-1], nm),
                      nm.endswith('.tmp') and root_ok and in_ctor, cs,
                      'file created as <dump_folder>/%s in %s' % (nm, b2.path),
                      bad_detail='file %s created outside the tmp-then-rename protocol (tmp suffix=%s, under dump folder=%s, in callback constructor=%s)'
                      % (nm, nm.endswith('.tmp'), root_ok, in_ctor))
    # renames
    ren_src = set()
    for cs in prog.all_calls():
        if not cs.is_('std::fs::rename'):
            continue
        b = cs.body
        ctx.touch(b)
        in_complete = b.path.endswith('::on_complete') and b.impl_trait and b.impl_trait.endswith(CALLBACK)
        ctx.check('names', 'rename-only-in-on_complete:%s' % b.path, bool(in_complete), cs, 'rename in %s' % b.path)
        src = util.string_values(prog, b, b.op_expr(cs.args[0]))
        if src is None:
            ctx.violation('names', 'rename-source-not-constant:%s' % b.path, cs, show(b.op_expr(cs.args[0]))[:160])
        else:
            for nm in sorted(src):
                ren_src.add((b.impl_self, nm))
        dst = b.op_expr(cs.args[1])
        f = util.fmt_in(prog, b, dst)
        if f is None:
            dv = util.string_values(prog, b, dst)
            tail = sorted(dv)[0] if dv else None
        else:
            tail = f.pieces[-1][1] if f.pieces and f.pieces[-1][0] == 'lit' else None
        ctx.check('names', 'dest-not-tmp:%s' % b.impl_self.split('::')[-1], tail is not None and not tail.endswith('.tmp') and tail != '', cs,
                  'rename destination ends with %r' % tail)
        # both under dump_folder
        for which, a in (('src', cs.args[0]), ('dst', cs.args[1])):
            e = b.op_expr(a)
            under = mir.contains(e, lambda x: x[0] == 'field' and x[2] == 'dump_folder')
            ctx.check('names', 'rename-%s-under-dump-folder:%s' % (which, b.impl_self.split('::')[-1]), under, cs, '')
    ctx.check('names', 'rename-sources==created-tmp-files', ren_src == created_names, None,
              'created: %s; renamed: %s' % (sorted(x[1] for x in created_names), sorted(x[1] for x in ren_src)),
              bad_detail='created but never renamed: %s; renamed but never created: %s'
              % (sorted(x[1] for x in created_names - ren_src), sorted(x[1] for x in ren_src - created_names)))
    # no other API removes/creates under the dump folder
    for cs in prog.all_calls():
        if cs.is_('std::fs::remove_file', 'std::fs::remove_dir_all', 'std::fs::remove_dir', 'std::fs::hard_link',
                  'std::os::unix::fs::symlink', 'std::fs::set_permissions'):
            ctx.violation('names', 'unexpected-fs-mutation:%s' % cs.name, cs, 'file-system mutation outside the create/rename protocol')


def rule_results(ctx):
    prog = ctx.prog
    n = 0
    for b in prog.bodies.values():
        for cs in b.calls:
            ty = cs.dest['ty']
            if not ty.startswith('std::result::Result<'):
                continue
            n += 1
            if util.result_is_consumed(b, cs):
                ctx.ok('results', 'consumed', cs, '', nontrivial=False)
            else:
                ctx.violation('results', 'dropped:%s:%s' % (b.path, mir.short(cs.name)), cs,
                              'the Result of %s is never inspected (dropped / `let _` / `.ok()` unused): an I/O failure here would go unnoticed' % cs.name)


def terminal_exits(body, start):
    """classify how control can leave from `start`: set of ('return',) ('exit', code) ('panic',) ('call', name)"""
    out = set()
    region = body.reach_from(start)
    for b in region:
        t = body.blocks[b]['term']
        if t['k'] == 'return':
            out.add(('return',))
        elif t['k'] == 'call' and t['target'] is None:
            cs = body.call_at[b]
            if cs.is_('std::process::exit'):
                code = mir.int_value(body.op_expr(cs.args[0]))
                out.add(('exit', code))
            elif re.search(r'panic|unwrap_failed|expect_failed|begin_panic|unreachable', cs.name):
                out.add(('panic',))
            else:
                out.add(('diverge', cs.name))
        elif t['k'] == 'unreachable':
            pass
    return out, region


def rule_readfail(ctx):
    import c02
    prog = ctx.prog
    (b, h, lb, back, hits), vs, reach = c02.find_driver_loop(ctx)
    ctx.touch(b)
    # the fetch call: result flows into the delivered block
    fetch_cs = None
    for cs in hits:
        blk = peel(b.arg_exprs(cs)[-2], calls=False)
        x = blk
        while x[0] in ('field', 'variant', 'try'):
            x = peel(x[1], calls=False)
        if x[0] == 'call':
            fetch_cs = b.call_at.get(x[3][1])
    if fetch_cs is None:
        raise Unrecognised('readfail', 'block fetch call not found')
    # find the Err edge of the fetch result
    err_targets = []
    fe = mir.strip_sites(b.call_expr(fetch_cs))
    for (src, dst), fs in b.edge_facts().items():
        if b.edge_infeasible(src, dst):
            continue
        for f in fs:
            if f[0] == 'is' and mir.strip_sites(peel(f[1], calls=False)) == fe and f[2] == ('Err',):
                err_targets.append(dst)
            if f[0] == 'is' and f[2] == ('Break',):
                inner = peel(f[1], calls=False)
                if inner[0] == 'call' and inner[1].endswith('branch') and mir.strip_sites(peel(inner[2][0], calls=False)) == fe:
                    err_targets.append(dst)
    if not err_targets:
        raise Unrecognised('readfail', 'no Err edge for the block fetch result')
    oc = util.virtual_sites(prog, CALLBACK, 'on_complete')
    reach_oc = util.bodies_reaching(prog, [x.body for x in oc])
    for et in err_targets:
        outs, region = terminal_exits(b, et)
        reaches_complete = any(util.call_reaches(prog, cs, reach_oc) for cs in b.calls if cs.bb in region)
        ctx.check('readfail', 'err-edge-never-completes', not reaches_complete, (b, et),
                  'from the Err edge of the block fetch no on_complete call is reachable')
        bad = [o for o in outs if not ((o[0] == 'exit' and o[1] not in (0, None)) or o[0] == 'panic')]
        # returning Err to main is acceptable too if main exits non-zero (C10.main) — detect returns of Err
        if ('return',) in outs:
            # all returns reachable from here must carry an Err
            bad = [o for o in bad if o != ('return',)]
            ok_ret = set(ok_return_blocks(b)) & region
            ctx.check('readfail', 'err-edge-returns-err', not ok_ret, (b, et), 'no Ok(..) return is reachable from the Err edge')
        ctx.check('readfail', 'err-edge-exits-nonzero', not bad and outs, (b, et),
                  'control leaves the Err edge only via %s' % sorted(outs))
        # the failing height is reported
        dom = c02.loop_domain(b, h, lb)
        var = mir.strip_sites(peel(dom['var'], calls=False))
        logged = False
        for cs in b.calls:
            if cs.bb in region and cs.is_('~fmt::Arguments::<.*>::new$'):
                f = mir.decode_fmt(b, cs)
                if any(mir.strip_sites(peel(p[3], calls=False)) == var for p in f.args):
                    logged = True
        ctx.check('readfail', 'height-reported', logged, (b, et), 'the error message is formatted with the loop height')
    # "end of chain" (Ok(None), on which the driver stops quietly and completes) may be answered only when the index has
    # no record for the height; a block that is indexed but cannot be fetched (missing file, failed read) must be an Err
    for t in prog.targets(fetch_cs):
        nones = [d for d in t.ret_defs() if d[0] == 'assign' and canon(t.rvalue_expr(d[3])) == 'Result::Ok{0: Option::None{}}']
        for d in nones:
            gs = util.path_guard_sets(t, d[1])
            okn = all(any(re.match(r'^get\(self\.\w+, a2\) is None$', x) for x in g) for g in gs) and bool(gs)
            ctx.check('readfail', 'end-of-chain-only-when-unindexed', okn, (t, d[1]), 'Ok(None) only under %s' % gs,
                      bad_detail='Ok(None) is returned under %s: a block that is indexed but cannot be fetched ends the run quietly with exit 0' % gs)
        if not nones:
            ctx.ok('readfail', 'end-of-chain-only-when-unindexed', t, 'the fetch never answers Ok(None)')
    # inside the fetch: errors of the read are propagated (covered crate-wide by C10.results); additionally the
    # fetch must not convert an Err of the reader into Ok(None)
    for t in prog.targets(fetch_cs):
        ctx.touch(t)
        for cs in t.calls:
            if cs.dest['ty'].startswith('std::result::Result<') and cs.local and not cs.macros:
                e = mir.strip_sites(t.call_expr(cs))
                for (src, dst), fs in t.edge_facts().items():
                    for f in fs:
                        if f[0] == 'is' and f[2] == ('Err',) and mir.strip_sites(peel(f[1], calls=False)) == e:
                            okr = set(ok_return_blocks(t)) & t.reach_from(dst)
                            ctx.check('readfail', 'fetch-propagates:%s' % mir.short(cs.name), not okr, (t, dst),
                                      'Err of %s cannot reach an Ok(..) return of %s' % (mir.short(cs.name), t.path))


def rule_main(ctx):
    prog = ctx.prog
    m = prog.one('main')
    ctx.touch(m)
    n = 0
    for cs in m.calls:
        if not cs.dest['ty'].startswith('std::result::Result<') or cs.macros:
            continue
        if not cs.local:
            continue
        e = mir.strip_sites(m.call_expr(cs))
        for (src, dst), fs in m.edge_facts().items():
            for f in fs:
                if f[0] == 'is' and f[2] == ('Err',) and mir.strip_sites(peel(f[1], calls=False)) == e:
                    outs, region = terminal_exits(m, dst)
                    ok = outs and all((o[0] == 'exit' and o[1] not in (0, None)) or o[0] == 'panic' for o in outs)
                    ctx.check('main', 'err-exits-nonzero:%s' % mir.short(cs.name), bool(ok), (m, dst),
                              'Err of %s leaves main only via %s' % (mir.short(cs.name), sorted(outs)))
                    n += 1
    # process::exit(0) anywhere in the crate would defeat the exit-status contract
    for cs in prog.all_calls():
        if cs.is_('std::process::exit'):
            code = mir.int_value(cs.body.op_expr(cs.args[0]))
            ctx.check('main', 'exit-code-nonzero:%s' % cs.body.path, code not in (0, None), cs, 'process::exit(%s)' % code)


def run(ctx):
    ctx.trusted += ['POSIX rename(2) atomicity', 'std::io::BufWriter semantics (flush writes the whole buffer or errors; Drop ignores errors)',
                    'kernel durability is out of scope (SIGKILL after rename)']
    ctx.assumptions += ['on_complete runs after all on_block calls (C02.once)']
    ctx.guard('flush', rule_flush)
    ctx.guard('names', rule_names)
    ctx.guard('results', rule_results)
    ctx.guard('readfail', rule_readfail)
    ctx.guard('main', rule_main)
    ctx.floor('flush', 12)
    ctx.floor('names', 25)
    ctx.floor('results', 300)
    ctx.floor('readfail', 5)
    ctx.floor('main', 5)
