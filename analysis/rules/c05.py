"""C05 — Bitcoin/testnet3: every output script gets the reference type and address."""
import re

import mir
import util
from mir import canon, peel, Unrecognised

EXPLANATION = (
    "Static decision of the structural clauses of C05 on the MIR of script::eval_from_bytes, "
    "eval_from_bytes_bitcoin, p2pk_to_string and is_provable_unspendable: (dispatch) version ids 0x00/0x6f go "
    "to the rust-bitcoin evaluator with Network::Bitcoin/Testnet respectively, everything else to the custom "
    "evaluator; (cascade) the set of (library predicate -> reported ScriptPattern) pairs, extracted as the "
    "must-hold guard set of every return site, equals the reference table, with the precedences required "
    "where predicates overlap (OP_RETURN before unspendable before everything; p2wpkh/p2wsh/p2tr before the "
    "generic witness-program test); (addr) OP_RETURN and unspendable scripts carry no address, P2PK takes "
    "HASH160(first push) -> P2PKH address on the dispatcher's network, all others take Display of "
    "Address::from_script(script, network) or None on error; (unspendable) first opcode classified in the "
    "Legacy context as ReturnOp or IllegalOp. Decides these for all byte strings; the library predicates "
    "and encoders are trusted.")
RULE = ("instances = return sites of the evaluator with their guard sets, network definitions, address "
        "provenance per outcome; non-trivial = pair/precedence/provenance obligation; distinct by key")

S = 'from_bytes(a1)'
PAIRS = {
    'is_op_return': 'OpReturn', 'is_provable_unspendable': 'Unspendable', 'is_p2pk': 'Pay2PublicKey',
    'is_p2pkh': 'Pay2PublicKeyHash', 'is_p2sh': 'Pay2ScriptHash', 'is_p2wpkh': 'Pay2WitnessPublicKeyHash',
    'is_p2wsh': 'Pay2WitnessScriptHash', 'is_p2tr': 'Pay2Taproot', 'is_witness_program': 'WitnessProgram',
    'is_multisig': 'Pay2MultiSig',
}
# (earlier, later): `later` may only be reported when `earlier` is known false
PRECEDENCE = [('is_op_return', p) for p in PAIRS if p != 'is_op_return'] + \
             [('is_provable_unspendable', p) for p in PAIRS if p not in ('is_op_return', 'is_provable_unspendable')] + \
             [('is_p2wpkh', 'is_witness_program'), ('is_p2wsh', 'is_witness_program'), ('is_p2tr', 'is_witness_program')]


def outcomes(body):
    """return sites of the evaluator: (bb, address canon, pattern variant, pattern canon, guards). A pattern that
    is chosen by an earlier branch (`let pattern = if .. {A} else {B}; new(addr, pattern)`) is split into one
    outcome per alternative, each under the guards of the block that chose it."""
    out = []
    for d in body.ret_defs():
        v = body.rvalue_expr(d[3]) if d[0] == 'assign' else body.call_expr(d[2])
        v = peel(v, calls=False)
        addr = pat = pat_op = None
        if v[0] == 'call' and mir.method_name(v[1]) == 'new' and len(v[2]) == 2:
            addr, pat = v[2]
            if d[0] == 'call':
                pat_op = d[2].args[1]
        elif v[0] == 'aggr' and v[2].endswith('EvaluatedScript::EvaluatedScript'):
            f = dict(v[3])
            addr, pat = f.get('address'), f.get('pattern')
            if d[0] == 'assign' and d[3]['k'] == 'aggr' and 'pattern' in d[3].get('fields', []):
                pat_op = d[3]['ops'][d[3]['fields'].index('pattern')]
        else:
            raise Unrecognised('cascade', 'return value is not an EvaluatedScript construction: %s' % canon(v)[:120])
        here = util.guards_at(body, d[1])
        alts = util.value_alternatives(body, pat_op) if pat_op is not None else None
        if not alts or len(alts) < 2:
            alts = [(pat, d[1])]
        for pe, pbb in alts:
            p = peel(pe, calls=False)
            variant = p[2].split('::')[-1] if p[0] == 'aggr' else None
            g = here if pbb == d[1] else sorted(set(here) | set(util.guards_at(body, pbb)))
            out.append((pbb, addr, variant, pe, g))
    return out


def rule_dispatch(ctx):
    prog = ctx.prog
    d = prog.one('script::eval_from_bytes')
    ctx.touch(d)
    rets = []
    for df in d.ret_defs():
        v = d.call_expr(df[2]) if df[0] == 'call' else d.rvalue_expr(df[3])
        rets.append((canon(v), util.guards_at(d, df[1]), df[1]))
    exp = {('eval_from_bytes_bitcoin(a1, a2)', ('a2 in {0,111}',)), ('eval_from_bytes_custom(a1, a2)', ('a2 notin {0,111}',))}
    got = {(r[0], tuple(r[1])) for r in rets}
    ctx.check('dispatch', 'version-id-routing', got == exp, d, 'eval_from_bytes: %s' % sorted(got))
    b = prog.one('script::eval_from_bytes_bitcoin')
    ctx.touch(b)
    # network local: find the local passed to Address::from_script
    nets = {}
    for l, ds in b.defs().items():
        if b.local_ty(l) == 'bitcoin::Network' and len(ds) > 1:
            for df in ds:
                if df[0] == 'assign':
                    nets[canon(b.rvalue_expr(df[3]))] = util.guards_at(b, df[1])
    ctx.check('dispatch', 'network:0x00->Bitcoin', nets.get('Network::Bitcoin{}') == ['a2 in {0}'], b, 'Network::Bitcoin under %s' % nets.get('Network::Bitcoin{}'))
    ctx.check('dispatch', 'network:0x6f->Testnet', nets.get('Network::Testnet{}') == ['a2 in {111}'], b, 'Network::Testnet under %s' % nets.get('Network::Testnet{}'))
    ctx.check('dispatch', 'no-other-network', set(nets) == {'Network::Bitcoin{}', 'Network::Testnet{}'}, b, 'networks: %s' % sorted(nets))
    # the script under test is the parameter
    fb = [cs for cs in b.calls if mir.method_name(cs.name) == 'from_bytes']
    ctx.check('dispatch', 'script=from_bytes(param)', len(fb) == 1 and canon(b.op_expr(fb[0].args[0])) == 'a1', b, 'Script::from_bytes(bytes)')
    # only caller of the bitcoin evaluator is the dispatcher (so the panic arm is unreachable)
    callers = prog.callers_of(b)
    ctx.check('dispatch', 'single-caller', len(callers) == 1 and callers[0].body is d, b, 'callers: %s' % [c.where() for c in callers])


def rule_cascade(ctx):
    prog = ctx.prog
    b = prog.one('script::eval_from_bytes_bitcoin')
    outs = outcomes(b)
    seen = {}
    for bb, addr, variant, pat, guards in outs:
        pos = [g for g in guards if not g.startswith('!') and g.endswith('(%s)' % S)]
        neg = [g[1:] for g in guards if g.startswith('!') and g.endswith('(%s)' % S)]
        posn = [g[:-len('(%s)' % S)] for g in pos]
        negn = [g[:-len('(%s)' % S)] for g in neg]
        if variant == 'NotRecognised':
            missing = sorted(set(PAIRS) - set(negn))
            ctx.check('cascade', 'default:NotRecognised', not posn and not missing, (b, bb),
                      'NotRecognised is reported when all %d predicates are false' % len(negn),
                      bad_detail='NotRecognised reported under %s (missing negations: %s)' % (guards, missing))
            seen['default'] = True
            continue
        if len(posn) != 1:
            ctx.violation('cascade', 'outcome-without-single-predicate:%s' % variant, (b, bb), 'reported under %s' % guards)
            continue
        pred = posn[0]
        expv = PAIRS.get(pred)
        seen[pred] = variant
        ctx.check('cascade', 'pair:%s' % pred, expv == variant, (b, bb), '%s -> %s' % (pred, variant),
                  bad_detail='%s -> %s, reference says %s' % (pred, variant, expv))
        for early, late in PRECEDENCE:
            if late == pred:
                ctx.check('cascade', 'precedence:%s<%s' % (early, late), early in negn, (b, bb),
                          '%s is only reported when %s is false' % (variant, early),
                          bad_detail='%s can be reported for a script that also satisfies %s (tested in the wrong order)' % (variant, early))
    for pred in PAIRS:
        if pred not in seen:
            ctx.violation('cascade', 'missing-outcome:%s' % pred, b, 'no return site guarded by %s' % pred)
    if 'default' not in seen:
        ctx.violation('cascade', 'missing-default', b, 'no NotRecognised outcome')


def rule_addr(ctx):
    prog = ctx.prog
    b = prog.one('script::eval_from_bytes_bitcoin')
    outs = outcomes(b)
    net = 'phi(Network::Bitcoin{} | Network::Testnet{})'
    lib = 'phi(Option::None{} | Option::Some{0: from_script(%s, %s)?})' % (S, net)
    for bb, addr, variant, pat, guards in outs:
        a = canon(addr)
        if variant in ('OpReturn', 'Unspendable'):
            ctx.check('addr', 'none:%s' % variant, a == 'Option::None{}', (b, bb), '%s carries address %s' % (variant, a))
        elif variant == 'Pay2PublicKey':
            ctx.check('addr', 'p2pk-workaround', a == 'p2pk_to_string(%s, %s)' % (S, net), (b, bb), 'P2PK address = %s' % a)
        else:
            ctx.check('addr', 'library:%s' % variant, a == lib, (b, bb), '%s address = %s' % (variant, a[:90]),
                      bad_detail='%s address = %s; expected Display of Address::from_script(script, network)' % (variant, a))
    # definitions of the library address: Some(..) only on the Ok edge, None on the Err edge
    for l, ds in b.defs().items():
        if b.local_ty(l) == 'std::option::Option<std::string::String>' and len(ds) >= 2:
            some, none = [], []
            fs = 'from_script(%s, %s)' % (S, net)
            for df in ds:
                v = canon(b.rvalue_expr(df[3])) if df[0] == 'assign' else canon(b.call_expr(df[2]))
                g = util.guards_at(b, df[1])
                if v.startswith('Option::Some'):
                    some.append(('%s is Ok' % fs in g, df[1]))
                elif v == 'Option::None{}':
                    none.append(('%s is Err' % fs in g, df[1]))
            if some and none and len(some) + len(none) == len(ds):
                ctx.check('addr', 'some-on-ok', all(x[0] for x in some), (b, some[0][1]), 'address Some(..) only under Ok')
                ctx.check('addr', 'none-on-err', all(x[0] for x in none), (b, none[0][1]), 'address None only under Err (%d site(s))' % len(none))
    # p2pk_to_string
    p = prog.one('script::p2pk_to_string')
    ctx.touch(p)
    push = '(each(instructions(a1))? as PushBytes).0'
    rets = []
    for df in p.ret_defs():
        v = p.rvalue_expr(df[3]) if df[0] == 'assign' else p.call_expr(df[2])
        rets.append((canon(v), util.guards_at(p, df[1]), df[1]))
    some = [r for r in rets if r[0].startswith('Option::Some')]
    ctx.check('addr', 'p2pk:hash-of-first-push', len(some) == 1 and some[0][0] == 'Option::Some{0: p2pkh(from_raw_hash(hash(%s)), a2)}' % push,
              p, 'p2pk_to_string = %s' % (some[0][0] if some else rets))
    h = [cs for cs in p.calls if mir.method_name(cs.name) == 'hash']
    ctx.check('addr', 'p2pk:hash160', len(h) == 1 and 'hash160::Hash' in h[0].rfull, p, 'hash = %s' % (h[0].rfull if h else '?'))
    pk = [cs for cs in p.calls if mir.method_name(cs.name) == 'p2pkh']
    ctx.check('addr', 'p2pk:network-param', len(pk) == 1 and canon(p.op_expr(pk[0].args[1])) == 'a2', p, 'Address::p2pkh(_, network parameter)')
    # caller guard for the unreachable!/debug_assert! in p2pk_to_string
    b_calls = [cs for cs in b.calls if mir.method_name(cs.name) == 'p2pk_to_string']
    for cs in b_calls:
        ctx.check('addr', 'p2pk:called-only-under-is_p2pk', 'is_p2pk(%s)' % S in util.guards_at(b, cs.bb), cs, 'guards: is_p2pk')


def rule_unspendable(ctx):
    prog = ctx.prog
    u = prog.one('script::is_provable_unspendable')
    ctx.touch(u)
    cls = 'classify(first(a1)?, ClassifyContext::Legacy{})'
    acc = set()
    rej_empty = False
    outs = []
    for df in u.ret_defs():
        alts = None
        if df[0] == 'assign' and df[3]['k'] == 'use':
            alts = util.value_alternatives(u, df[3]['op'])
        if alts:
            here = set(util.guards_at(u, df[1]))
            outs.extend((e, sorted(here | set(util.guards_at(u, bb)))) for e, bb in alts)
        else:
            v0 = u.rvalue_expr(df[3]) if df[0] == 'assign' else u.call_expr(df[2])
            outs.append((v0, util.guards_at(u, df[1])))
            if canon(v0) == 'false':
                # one `false` return reached from several arms: the empty-script arm is one of its incoming paths
                for gs in util.path_guard_sets(u, df[1]):
                    if 'first(a1) is None' in gs and not any(x.startswith(cls + ' ') for x in gs):
                        rej_empty = True
    for v, g in outs:
        c = canon(v)
        if c == 'false' and g == ['first(a1) is None']:
            rej_empty = True
        elif c == 'true':
            for x in g:
                m = re.match(re.escape(cls) + r' == Class::(\w+)\{\}', x)
                if m:
                    acc.add(m.group(1))
                m = re.match(re.escape(cls) + r' is ([\w|]+)$', x)
                if m:
                    acc.update(m.group(1).split('|'))
        elif c == 'false':
            pass
        else:
            vv = peel(v, calls=False)
            if vv[0] == 'call' and mir.method_name(vv[1]) == 'eq' and canon(vv[2][0]) == cls:
                o = mir.unname(peel(vv[2][1]))
                acc.add(canon(o).replace('Class::', '').replace('{}', ''))
            elif vv[0] == 'bin' and vv[1] == 'Eq':
                acc.add(canon(vv[3]).replace('Class::', '').replace('{}', ''))
    ctx.check('unspendable', 'first-opcode-legacy-class', acc == {'ReturnOp', 'IllegalOp'}, u,
              'unspendable iff class(first byte, Legacy) in %s' % sorted(acc))
    ctx.check('unspendable', 'empty-script-is-spendable', rej_empty, u, 'empty script -> false')
    fr = [cs for cs in u.calls if mir.method_name(cs.name) in ('first',)]
    ctx.check('unspendable', 'looks-at-first-byte', len(fr) == 1, u, 'uses bytes.first()')


def run(ctx):
    ctx.trusted += ['rust-bitcoin 0.32.5 Script predicates, Address::from_script/p2pkh, hash160, opcode classification']
    ctx.guard('dispatch', rule_dispatch)
    ctx.guard('cascade', rule_cascade)
    ctx.guard('addr', rule_addr)
    ctx.guard('unspendable', rule_unspendable)
    ctx.floor('dispatch', 6)
    ctx.floor('cascade', 30)
    ctx.floor('addr', 16)
    ctx.floor('unspendable', 3)
