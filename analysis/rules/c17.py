"""C17 — open blk files stay bounded by the files overlapping the current height."""
import re

import mir
import util
from mir import canon, peel, Unrecognised

EXPLANATION = (
    "Static decision of the structural clauses of C17: (open) the handle field of BlkFile becomes Some only in "
    "open() (under is_none) and None only in close()/the constructor, and open() is called only from "
    "BlkFile::read_block, so a closed file that is needed again is reopened transparently; (close) in the "
    "block fetch every path from the Ok edge of the read to the Ok(Some(block)) return passes the decision "
    "height >= max_height_by_blk(record.blk_index) whose true edge calls close() on the very map entry that "
    "was read; (threshold) the table consulted is keyed by the same record's blk_index and built as a fold "
    "over heights of index records stored in that file, over the untrimmed index (max-fold with >=, or any "
    "stored height with >=, or max-fold with ==). With ascending delivery (C02.asc) this yields: once the "
    "highest block of a file is delivered the file is closed. Descriptor accounting by the OS is trusted.")
RULE = ("instances = stores to the handle field, call sites of open/close, decision edges, table insertions with "
        "guards; non-trivial = who-may-call/path/polarity obligation")


def _open_store_ok(b, bb, h, some_bbs):
    """a store to the handle inside open(): either Some(reader) where the reader is the one already held or one built
    while the handle was empty, or the None that `take()` leaves behind when every successful return is preceded by
    a store of Some."""
    none_facts = ('self.%s is None' % h, 'take(self.%s) is None' % h)
    held = ('self.%s?' % h, 'take(self.%s)?' % h)
    for sbb, ch, val, st in util.self_field_stores(b):
        if sbb != bb or ch[0] != h:
            continue
        if val[0] == 'aggr' and val[2].endswith('Option::None'):
            cs = b.call_at.get(bb)
            if cs is None or not re.search(r'option::Option::<.*>::take$', cs.name):
                return False
            oks = [d[1] for d in b.ret_defs() if d[0] == 'assign' and canon(b.rvalue_expr(d[3])).startswith('Result::Ok{')]
            if not oks or not some_bbs:
                return False
            reach = set()
            for s2 in b.succ.get(bb, []):
                reach |= b.reach_from(s2, avoid=some_bbs)
            if reach & set(oks):
                return False
            continue
        if not (val[0] == 'aggr' and val[2].endswith('Option::Some') and val[3]):
            return False
        x = val[3][0][1]
        alts = list(x[1]) if x[0] == 'phi' else [x]
        g_here = util.guards_at(b, bb)
        for a in alts:
            ca = canon(a)
            if ca in held:
                continue
            gs = set(g_here)
            for cs in b.calls:
                if canon(b.call_expr(cs)) == ca:
                    gs |= set(util.guards_at(b, cs.bb))
            if not any(f in gs for f in none_facts):
                return False
    return True


def rule_open(ctx):
    prog = ctx.prog
    blk = 'blockchain::parser::blkfile::BlkFile'
    flds = dict(prog.adt_fields(blk) or [])
    handle = [n for n, t in flds.items() if t.startswith('std::option::Option<') and ('Reader' in t or 'File' in t)]
    if len(handle) != 1:
        raise Unrecognised('open', 'handle field of BlkFile not identified: %s' % flds)
    h = handle[0]
    writers = {}
    for b in prog.bodies.values():
        if b.impl_self == blk:
            for bb, ch, val, st in util.self_field_stores(b):
                if ch[0] == h:
                    writers.setdefault(b.path.split('::')[-1], []).append((canon(val), util.guards_at(b, bb), b, bb))
    ctx.check('open', 'handle-writers', set(writers) == {'open', 'close'}, None, 'self.%s is written in %s' % (h, sorted(writers)))
    # "a file needed again later is transparently reopened": what open() builds the reader from (path, key) is never
    # modified after construction, so the second reader equals the first
    other = []
    for b in prog.bodies.values():
        if b.impl_self == blk:
            for bb, ch, val, st in util.self_field_stores(b):
                if ch[0] != h:
                    other.append((b.path.split('::')[-1], ch[0], canon(val)[:40]))
    ctx.check('open', 'reopen-state-immutable', not other, None, 'no BlkFile method writes a field other than the handle',
              bad_detail='BlkFile fields other than the handle are modified after construction: %s — a reopened reader differs from the first one' % other)
    for fn, ws in writers.items():
        for val, g, b, bb in ws:
            ctx.touch(b)
            if fn == 'open':
                ctx.check('open', 'open-sets-some-when-none', _open_store_ok(b, bb, h, [w[3] for w in ws if w[0].startswith('Option::Some{')]), (b, bb), 'open: %s under %s' % (val[:60], g))
            elif fn == 'close':
                ctx.check('open', 'close-sets-none', val == 'Option::None{}', (b, bb), 'close: %s' % val)
    op = prog.one('BlkFile::open')
    callers = prog.callers_of(op)
    ctx.check('open', 'open-only-from-read_block', len(callers) == 1 and callers[0].body.path.endswith('BlkFile::read_block'), op, 'callers of open: %s' % [c.body.path for c in callers])
    ctx.check('open', 'open-returns-handle', ('Result::Ok{0: self.%s?}' % h in canon(op.ret_expr()) or 'Result::Ok{0: insert(self.%s, ' % h in canon(op.ret_expr())), op, 'open returns the stored handle')
    nw = prog.one('BlkFile::new')
    ctx.check('open', 'constructed-closed', '%s: Option::None{}' % h in canon(nw.ret_expr()), nw, canon(nw.ret_expr()))
    # the file handle opened is this file's path
    fo = [c for c in op.calls if c.is_('std::fs::File::open')]
    ctx.check('open', 'opens-own-path', len(fo) == 1 and canon(op.op_expr(fo[0].args[0])) == 'self.path', op, 'File::open(self.path)')
    cl = prog.one('BlkFile::close')
    callers = prog.callers_of(cl)
    ctx.check('open', 'close-callers', len(callers) == 1 and callers[0].body.path.endswith('ChainStorage::get_block'), cl, 'callers of close: %s' % [c.body.path for c in callers])


def rule_close(ctx):
    prog = ctx.prog
    g = prog.one('ChainStorage::get_block')
    ctx.touch(g)
    rec = 'get(self.chain_index, a2)?'
    ent = 'get_mut(self.blk_files, %s.blk_index)?' % rec
    rd = [cs for cs in g.calls if mir.method_name(cs.name) == 'read_block']
    cl = [cs for cs in g.calls if mir.method_name(cs.name) == 'close']
    if len(rd) != 1 or len(cl) != 1:
        raise Unrecognised('close', 'expected one read and one close in the block fetch (%d/%d)' % (len(rd), len(cl)))
    rd, cl = rd[0], cl[0]
    ctx.check('close', 'closes-the-entry-that-was-read', canon(g.op_expr(cl.args[0])) == ent == canon(g.op_expr(rd.args[0])), cl, 'close(%s)' % canon(g.op_expr(cl.args[0])))
    thr = 'max_height_by_blk(self.chain_index, %s.blk_index)' % rec
    gd = util.guards_at(g, cl.bb)
    rel = [x for x in gd if thr in x]
    ge = '%s <= a2' % thr
    eq = 'a2 == %s' % thr
    ctx.check('close', 'decision-polarity', rel in ([ge], [eq], ['%s == a2' % thr]), cl, 'close under %s' % rel,
              bad_detail='close is guarded by %s; required: height >= (or ==) the highest height stored in this file — with `>` the file is never closed at its last block' % rel)
    ctx.check('close', 'after-successful-read', g.dominates(rd.bb, cl.bb) and any('read_block(' in x and 'is Ok' in x for x in gd), cl, 'close happens after the read succeeded')
    # every path from read-Ok to Ok(Some) passes the decision
    okb = [d[1] for d in g.ret_defs() if d[0] == 'assign' and canon(g.rvalue_expr(d[3])).startswith('Result::Ok{0: Option::Some')]
    dec = None
    for (src, dst), fs in g.edge_facts().items():
        for f in fs:
            if f[0] == 'cond' and thr in canon(f[1]):
                dec = src
    if dec is None or not okb:
        raise Unrecognised('close', 'decision block or Ok(Some) return not found')
    rde = mir.strip_sites(g.call_expr(rd))
    ok_edge = [dst for (src, dst), fs in g.edge_facts().items() if not g.edge_infeasible(src, dst)
               for f in fs if f[0] == 'is' and f[2] == ('Ok',) and mir.strip_sites(mir.peel(f[1], calls=False)) == rde]
    allp = all(not (set(okb) & set(g.reach_from(t, avoid=[dec]))) for t in ok_edge) and bool(ok_edge)
    ctx.check('close', 'decision-on-every-success-path', allp, (g, dec), 'Ok(Some(block)) unreachable from the read-Ok edge without the close decision')
    # on the true edge close is always called before returning
    tedge = [dst for (src, dst), fs in g.edge_facts().items() if src == dec for f in fs if f[0] == 'cond' and f[2] is True]
    if rel == [ge] or True:
        # find the edge on which the relation holds (close's block is dominated by it)
        holds = [dst for (src, dst), fs in g.edge_facts().items() if src == dec and g.dominates(dst, cl.bb)]
        okc = bool(holds) and all(okb[0] not in g.reach_from(t, avoid=[cl.bb]) for t in holds)
        ctx.check('close', 'close-on-every-path-of-that-edge', okc, cl, 'the deciding edge cannot reach the return without calling close')


def rule_threshold(ctx):
    prog = ctx.prog
    acc = prog.one('ChainIndex::max_height_by_blk')
    ctx.touch(acc)
    ctx.check('threshold', 'table-lookup-by-file', canon(acc.ret_expr()) == 'get(self.max_height_blk_index, a2)?', acc, canon(acc.ret_expr()))
    n = prog.one('ChainIndex::new')
    ctx.touch(n)
    idx = 'get_block_index(join(a1.blockchain_dir, "index"))?'
    it = 'each(%s)' % idx
    # table writes in the fold loop: insert(table, key, value) calls and stores through get_mut(table, key)
    ins = [cs for cs in n.calls if mir.method_name(cs.name) == 'insert' and n.loop_depth(cs.bb) >= 1]
    writes = []
    for cs in ins:
        a = [canon(x) for x in n.arg_exprs(cs)]
        writes.append((a[0], a[1], a[2], cs.bb, cs))
    for bb, idx, p2, rv, st2 in n.stores():
        if rv is None or n.loop_depth(bb) < 1:
            continue
        m = re.match(r'^get_mut\((.*?), (.*)\)\?$', canon(n.place_expr(p2)))
        if m:
            writes.append((m.group(1), m.group(2), canon(n.rvalue_expr(rv)), bb, (n, bb)))
    # entry(key).or_insert(v): writes v when the key is absent (an init write by definition); a later store through the
    # returned reference is an update of the same slot
    pre_kinds = {}
    for cs in n.calls:
        if mir.method_name(cs.name) == 'or_insert' and n.loop_depth(cs.bb) >= 1 and len(cs.args) == 2:
            m = re.match(r'^entry\((.*?), (.*)\)$', canon(n.op_expr(cs.args[0])))
            if m:
                writes.append((m.group(1), m.group(2), canon(n.op_expr(cs.args[1])), cs.bb, cs))
                pre_kinds[cs.bb] = 'init'
    for bb, idx, p2, rv, st2 in n.stores():
        if rv is None or n.loop_depth(bb) < 1:
            continue
        m = re.match(r'^or_insert\(entry\((.*?), (.*)\), (.*)\)$', canon(n.place_expr(p2)))
        if m:
            writes.append((m.group(1), m.group(2).rsplit('), ', 1)[0] if False else m.group(2), canon(n.rvalue_expr(rv)), bb, (n, bb)))
    # the thresholds are folded over the map get_block_index returns — one winning record per height, i.e. the blocks
    # that will be delivered — not over the raw LevelDB scan (a stale record's height is never delivered, so a file
    # whose threshold it sets is never closed)
    ctx.check('threshold', 'fold-over-delivered-records', bool(writes) and all(w[1].startswith(it) or it in w[1] for w in writes), n,
              'per-file threshold table written from %d site(s) iterating the height-deduplicated index' % len(writes),
              bad_detail='ChainIndex::new does not fold the per-file thresholds over the records of the height-deduplicated index (%s): '
                         'a record that lost its height to another one can set a threshold that is never reached' % [w[1][:60] for w in writes])
    tbl = set()
    kinds = []
    for t0, k0, v0, wbb, site in writes:
        tbl.add(t0)
        curs = ['get(new(), %s.1.blk_index)?' % it, 'get_mut(new(), %s.1.blk_index)?' % it]
        # one kind per path into the write (a single insert reached from "absent" and from "larger" counts as both)
        for gset in util.path_guard_sets(n, wbb):
            gd = [x for x in gset if 'next(' not in x]
            curs2 = curs + ['or_insert(entry(new(), %s.1.blk_index), %s.0)' % (it, it)]
            if pre_kinds.get(wbb) == 'init' or any(x.endswith(' is None') for x in gd):
                kind = 'init'
            elif any(x in ('%s < %s.0' % (cur, it), 'gt(%s.0, %s)' % (it, cur)) for x in gd for cur in curs2):
                kind = 'max'
            elif any(x in ('%s.0 < %s' % (it, cur), 'lt(%s.0, %s)' % (it, cur)) for x in gd for cur in curs2):
                kind = 'min'
            else:
                kind = 'other:%s' % gd
            kinds.append(kind)
            ctx.check('threshold', 'keyed-by-records-file', k0 == '%s.1.blk_index' % it, site, 'table key = %s (%s path)' % (k0, kind.split(':')[0]))
            ctx.check('threshold', 'value-is-records-height', v0 == '%s.0' % it, site, 'table value = %s (%s path)' % (v0, kind.split(':')[0]))
    fold = 'max' if sorted(kinds) == ['init', 'max'] else ('min' if sorted(kinds) == ['init', 'min'] else 'other')
    ctx.check('threshold', 'fold-kind', fold in ('max', 'min'), n, 'table is a %s-fold over the heights stored in each file (%s)' % (fold, kinds))
    # combination with the decision polarity
    g = prog.one('ChainStorage::get_block')
    cl = [cs for cs in g.calls if mir.method_name(cs.name) == 'close']
    rel = [x for x in util.guards_at(g, cl[0].bb) if 'max_height_by_blk(' in x] if cl else []
    is_ge = bool(rel) and rel[0].endswith('<= a2')
    ctx.check('threshold', 'polarity-fits-fold', (fold == 'max') or (fold == 'min' and is_ge), n,
              '%s-fold with %s' % (fold, 'height >= H' if is_ge else 'height == H'),
              bad_detail='a min-fold threshold with `==` closes after the first block only and never after the last one')
    # same table stored in the struct; built from the untrimmed index (before retain)
    st = canon(n.ret_expr())
    ctx.check('threshold', 'table-stored', len(tbl) == 1 and 'max_height_blk_index: %s' % list(tbl)[0] in st, n, 'the folded table is the struct field')
    ret = [cs for cs in n.calls if mir.method_name(cs.name) == 'retain']
    okb = bool(ret) and all(n.dominates(w[3], ret[0].bb) or not n.path_exists(ret[0].bb, [w[3]]) for w in writes)
    ctx.check('threshold', 'folded-before-trimming', okb, n, 'the fold runs over the full index, before retain()')
    ctx.check('threshold', 'two-insert-sites', len(kinds) == 2 and 1 <= len(writes) <= 2, n, '%d table write site(s) reached on %d path(s)' % (len(writes), len(kinds)))


def run(ctx):
    ctx.trusted += ['OS descriptor accounting: dropping the reader closes the descriptor', 'C02.asc (ascending delivery)']
    for r, f in (('open', rule_open), ('close', rule_close), ('threshold', rule_threshold)):
        ctx.guard(r, f)
    ctx.floor('open', 9)
    ctx.floor('close', 5)
    ctx.floor('threshold', 10)
