"""C04 — only active-chain blocks are delivered; stale and header-only records never are."""
import hashlib
import re

import mir
import util
from mir import canon, peel, Unrecognised

EXPLANATION = (
    "Static decision of two necessary conditions of C04 on the MIR of the index loader: (status) the filter "
    "that guards the insertion into the height map is extracted as an expression over the record's status "
    "field and evaluated over all 256 assignments of the eight status bits Bitcoin Core defines; every "
    "admitted status must have HAVE_DATA(8) and neither FAILED_VALID(32) nor FAILED_CHILD(64), and the "
    "statuses of fully validated stored blocks must be admitted; (select) information-flow argument: the "
    "record kept for a height is a function of (LevelDB key order, height, status) only unless the loader "
    "reads a prev-hash from the record and walks the chain by hash; since a reorged-out sibling has the same "
    "status bits as the active block at its height, no function of those inputs can select the active chain. "
    "Both are genuine defects of the pinned tree, recorded as known findings with semantic keys (truth-table "
    "digest, dependency set and collision policy), so a different wrong filter or policy is a new violation.")
RULE = ("instances = status truth-table classes (256 assignments), the insertion site with its dependency set "
        "and collision policy; non-trivial = class with an obligation")

HAVE_DATA, HAVE_UNDO, FAILED_VALID, FAILED_CHILD, OPT_WITNESS = 8, 16, 32, 64, 128


def find_loader(ctx):
    prog = ctx.prog
    cands = []
    for b in prog.bodies.values():
        for cs in b.calls:
            if cs.is_('~rusty_leveldb::.*::advance$', '~LdbIterator::advance$', '~::advance$') and 'leveldb' in cs.name:
                cands.append(b)
                break
    cands = list(dict.fromkeys(cands))
    if len(cands) != 1:
        raise Unrecognised('anchor', 'expected one LevelDB iteration loop, found %d' % len(cands))
    return cands[0]


def eval_int(e, env):
    """evaluate an integer/boolean expression tree with `status` bound; returns int/bool or raises KeyError"""
    e = peel(e, calls=False)
    k = e[0]
    if k == 'int':
        return e[1]
    if k == 'bool':
        return e[1]
    if k == 'field' and e[2] == 'status':
        return env['status']
    if k == 'cast':
        return eval_int(e[2], env)
    if k == 'bin':
        a, b = eval_int(e[2], env), eval_int(e[3], env)
        op = e[1]
        if op == 'BitAnd':
            return a & b
        if op == 'BitOr':
            return a | b
        if op == 'BitXor':
            return a ^ b
        if op in ('Shl', 'ShlUnchecked'):
            return a << b
        if op in ('Shr', 'ShrUnchecked'):
            return a >> b
        if op in ('Add', 'AddUnchecked'):
            return a + b
        if op in ('Sub', 'SubUnchecked'):
            return a - b
        if op == 'Mul':
            return a * b
        if op == 'Rem':
            return a % b
        if op == 'Div':
            return a // b
        if op == 'Eq':
            return a == b
        if op == 'Ne':
            return a != b
        if op == 'Lt':
            return a < b
        if op == 'Le':
            return a <= b
        if op == 'Gt':
            return a > b
        if op == 'Ge':
            return a >= b
    if k == 'un' and e[1] == 'Not':
        v = eval_int(e[2], env)
        return (not v) if isinstance(v, bool) else (~v) & 0xFFFFFFFFFFFFFFFF
    raise KeyError(canon(e))


def mentions_status(e):
    return mir.contains(e, lambda x: x[0] == 'field' and x[2] == 'status')


def rule_status(ctx):
    prog = ctx.prog
    b = find_loader(ctx)
    ctx.touch(b)
    ins = [cs for cs in b.calls if mir.method_name(cs.name) in ('insert', 'or_insert', 'or_insert_with', 'entry') and 'HashMap' in cs.name or
           (mir.method_name(cs.name) in ('insert',) and 'hash_map' in cs.name)]
    ins = [cs for cs in ins if b.loop_depth(cs.bb) >= 1]
    if len(ins) != 1:
        raise Unrecognised('status', 'expected one map insertion in the LevelDB loop, found %d' % len(ins))
    cs = ins[0]
    facts = [f for f in b.facts_at(cs.bb) if f[0] == 'cond' and mentions_status(f[1])]
    other = [f for f in b.facts_at(cs.bb) if f[0] != 'cond' and mentions_status(f[1])]
    if other:
        raise Unrecognised('status', 'status is tested by a non-boolean switch: %s' % [canon(f[1]) for f in other])

    def admitted(s):
        for f in facts:
            v = eval_int(f[1], {'status': s})
            if bool(v) != f[2]:
                return False
        return True
    try:
        A = [s for s in range(256) if admitted(s)]
    except KeyError as ke:
        raise Unrecognised('status', 'cannot evaluate the status filter: %s' % ke)
    shown = ' && '.join(('' if f[2] else '!') + canon(f[1]) for f in facts) or 'true'
    nodata = [s for s in A if not s & HAVE_DATA]
    failed = [s for s in A if (s & HAVE_DATA) and (s & (FAILED_VALID | FAILED_CHILD))]
    must = [s for s in (5 | 8, 5 | 8 | 16, 5 | 8 | 128, 5 | 8 | 16 | 128, 3 | 8, 3 | 8 | 16) if s not in A]

    def dg(xs):
        return hashlib.sha256(','.join(map(str, xs)).encode()).hexdigest()[:8]
    site = cs
    if nodata:
        ctx.violation('status', 'admits-without-data:n=%d:%s' % (len(nodata), dg(nodata)), site,
                      'filter `%s` admits %d of 256 status values that lack HAVE_DATA (e.g. status=%d: header-only or pruned '
                      'record) — such a record is delivered / replaces the stored block at its height' % (shown, len(nodata), nodata[0]))
    else:
        ctx.ok('status', 'admitted-have-data', site, 'every admitted status has HAVE_DATA')
    if failed:
        ctx.violation('status', 'admits-failed:n=%d:%s' % (len(failed), dg(failed)), site,
                      'filter `%s` admits %d status values with FAILED_VALID/FAILED_CHILD set (e.g. status=%d): a block that '
                      'failed validation is delivered' % (shown, len(failed), failed[0]))
    else:
        ctx.ok('status', 'admitted-not-failed', site, 'no admitted status has a FAILED bit')
    ctx.check('status', 'admits-validated-stored-blocks', not must, site,
              'statuses of validated blocks with data are admitted', bad_detail='filter `%s` rejects valid stored blocks with status in %s' % (shown, must))
    ctx.note('status truth table: %d of 256 assignments admitted by `%s`' % (len(A), shown))
    # the tested status is the third VarInt of the value (C03.order) — here: it is a field of the record built from this entry
    rec = peel(b.op_expr(cs.args[-1]), calls=False)
    ctx.check('status', 'status-of-inserted-record', all(mir.strip_sites(peel(x, calls=False)) == mir.strip_sites(rec)
                                                           for f in facts for x in mir.walk(f[1]) if x[0] == 'field' and x[2] == 'status' for x in [x[1]]),
              site, 'the filter tests the status of the record being inserted')


def rule_select(ctx):
    prog = ctx.prog
    b = find_loader(ctx)
    ins = [cs for cs in b.calls if b.loop_depth(cs.bb) >= 1 and mir.method_name(cs.name) in ('insert', 'entry') and ('HashMap' in cs.name or 'hash_map' in cs.name)]
    if len(ins) != 1:
        raise Unrecognised('select', 'expected one map insertion in the LevelDB loop')
    cs = ins[0]
    mname = mir.method_name(cs.name)
    # collision policy
    if mname == 'insert':
        displaced_used = bool(b.real_uses(cs.dest['l'])) if not cs.dest['p'] else True
        policy = 'last-wins' if not displaced_used else 'insert-with-displaced-inspected'
    else:
        nxt = [c for c in b.calls if mir.method_name(c.name) in ('or_insert', 'or_insert_with', 'or_default', 'and_modify')]
        policy = 'first-wins' if any(mir.method_name(c.name).startswith('or_insert') for c in nxt) else 'entry-api'
    key = canon(b.op_expr(cs.args[1]))
    keyed_by_height = key.endswith('.height')
    # dependency set of the decision to insert: everything the guards read
    deps = set()
    for f in b.facts_at(cs.bb):
        e = f[1]
        for x in mir.walk(e):
            if x[0] == 'field' and x[2] in ('status', 'height', 'version', 'tx_count', 'blk_index', 'data_offset', 'block_hash', 'prev_hash'):
                deps.add(x[2])
            if x[0] == 'call' and mir.method_name(x[1]) == 'is_block_index_record':
                deps.add('key-prefix')
    deps.add('height' if keyed_by_height else key)
    deps.add('key-order')
    # does the record carry a prev-hash, and is there a walk by hash anywhere in the loader?
    rec_fields = None
    for path, adt in prog.adts.items():
        if path.endswith('BlockIndexRecord'):
            rec_fields = [(f['name'], f['ty']) for f in adt['variants'][0]['fields']]
    hash_fields = [n for n, t in (rec_fields or []) if 'sha256d::Hash' in t or '[u8; 32]' in t]
    roots = prog.find('ChainIndex::new')
    walk = False
    for rb in prog.reachable_bodies(roots):
        for c in rb.calls:
            if mir.method_name(c.name) in ('get', 'get_mut', 'remove', 'contains_key') and rb.loop_depth(c.bb) >= 1 and len(c.args) >= 2:
                k = canon(rb.op_expr(c.args[1]))
                if 'prev' in k and ('hash' in k):
                    walk = True
    if len(hash_fields) >= 2 and walk:
        ctx.ok('select', 'chain-walk-by-prev-hash', cs, 'records carry %s and the loader follows prev-hash links' % hash_fields)
    else:
        d = ','.join(sorted(deps - {'key-prefix'}))
        ctx.violation('select', 'deps={%s};policy=%s' % (d, policy), cs,
                      'the record kept for a height depends only on {%s} (policy %s): BlockIndexRecord has hash fields %s and '
                      'nothing under ChainIndex::new follows prev-hash links, so a stale sibling with block data whose key sorts '
                      'after the active block replaces it; no function of these inputs can select the active chain'
                      % (d, policy, hash_fields))
    ctx.check('select', 'keyed-by-record-height', keyed_by_height, cs, 'map key = %s' % key)


def rule_gap(ctx):
    """the delivered sequence is contiguous: a height for which the fetch has no block ends the delivery loop — it is
    never skipped (a block stored beyond a gap does not build on the block delivered before it)"""
    import c02
    prog = ctx.prog
    (b, h, lb, back, hits), vs, reach = c02.find_driver_loop(ctx)
    ctx.touch(b)
    fetch = [cs for cs in b.calls if cs.bb in lb and mir.method_name(cs.name) == 'get_block']
    if len(fetch) != 1:
        raise Unrecognised('gap', 'block fetch call in the driver loop not found (%d)' % len(fetch))
    fe = mir.strip_sites(b.call_expr(fetch[0]))
    none_edges = []
    for (src, dst), fs in b.edge_facts().items():
        if b.edge_infeasible(src, dst):
            continue
        for f in fs:
            if f[0] == 'is' and f[2] == ('None',):
                subj = mir.strip_sites(mir.peel(f[1], calls=False))
                if subj == fe:
                    none_edges.append((src, dst))
    ctx.check('gap', 'no-block-edge-found', len(none_edges) >= 1, fetch[0], 'the loop distinguishes "no block at this height" (%d edge(s))' % len(none_edges))
    for src, dst in none_edges:
        # from the None edge the loop header must not be reachable again
        again = h in b.reach_from(dst) if dst in lb else False
        ctx.check('gap', 'missing-height-ends-delivery', not again, (b, dst), 'a height without a block leaves the loop',
                  bad_detail='after a height without a block the loop continues with the next height: blocks stored beyond a gap are delivered although they do not build on the previous one')
    # and every delivered block is the one fetched for the loop's current height (C02.asc covers the height argument)


def run(ctx):
    ctx.trusted += ['Bitcoin Core BlockStatus bit assignment (chain.h)', 'rusty-leveldb iteration order = key order']
    ctx.guard('status', rule_status)
    ctx.guard('select', rule_select)
    ctx.guard('gap', rule_gap)
    ctx.floor('status', 4)
    ctx.floor('select', 2)
    ctx.floor('gap', 2)
